package sys

import (
	"fmt"
	"testing"
	"time"

	sdkmath "cosmossdk.io/math"
	upgradetypes "github.com/cosmos/cosmos-sdk/x/upgrade/types"

	sdk "github.com/cosmos/cosmos-sdk/types"
	authtypes "github.com/cosmos/cosmos-sdk/x/auth/types"
	govtypes "github.com/cosmos/cosmos-sdk/x/gov/types"

	icacontrollertypes "github.com/cosmos/ibc-go/v11/modules/apps/27-interchain-accounts/controller/types"
	icahosttypes "github.com/cosmos/ibc-go/v11/modules/apps/27-interchain-accounts/host/types"
	ratelimittypes "github.com/cosmos/ibc-go/v11/modules/apps/rate-limiting/types"
	transfertypes "github.com/cosmos/ibc-go/v11/modules/apps/transfer/types"
	clienttypes "github.com/cosmos/ibc-go/v11/modules/core/02-client/types"
	clientv2types "github.com/cosmos/ibc-go/v11/modules/core/02-client/v2/types"
	connectiontypes "github.com/cosmos/ibc-go/v11/modules/core/03-connection/types"
	channeltypesv2 "github.com/cosmos/ibc-go/v11/modules/core/04-channel/v2/types"
	hostv2 "github.com/cosmos/ibc-go/v11/modules/core/24-host/v2"
	ibctm "github.com/cosmos/ibc-go/v11/modules/light-clients/07-tendermint"
	ibctesting "github.com/cosmos/ibc-go/v11/testing"
	mockv2 "github.com/cosmos/ibc-go/v11/testing/mock/v2"

	"verif/harness/kit"
)

const (
	clsAuthority = "authority"
	clsCreator   = "creator"
	clsRelayer   = "listed-relayer"
	clsStranger  = "stranger"
	clsSpoof     = "stranger-naming-authority"
)

type c46 struct {
	c       *kit.Check
	w       *kit.World
	a, b    *kit.Chain
	auth    string
	cells   map[string]int
	samples int
}

// acctOf maps a signer class to the account index that plays it on a chain (creator = account 0, which ibctesting uses
// to create clients).
func acctOf(cls string) int {
	switch cls {
	case clsCreator:
		return 0
	case clsRelayer:
		return 3
	default:
		return 7
	}
}

// attempt submits op as signer class cls. Authority-signed messages go to the message router directly (a module
// account cannot sign a transaction); everyone else signs a real transaction.
func (x *c46) attempt(ch *kit.Chain, op, cls string, allowed map[string]bool, mk func(signer string) sdk.Msg) *kit.Outcome {
	var o *kit.Outcome
	switch cls {
	case clsAuthority:
		msg := mk(x.auth)
		h := ch.Sim.MsgServiceRouter().Handler(msg)
		if h == nil {
			x.c.Inconcl("no handler for " + sdk.MsgTypeURL(msg))
			return nil
		}
		o = ch.InBlock(func(ctx sdk.Context) error {
			_, err := h(ctx, msg)
			return err
		})
	case clsSpoof:
		o = ch.Deliver(ch.Acct(acctOf(clsStranger)), mk(x.auth))
	default:
		acct := ch.Acct(acctOf(cls))
		o = ch.Deliver(acct, mk(acct.SenderAccount.GetAddress().String()))
	}
	cell := op + "|" + cls
	x.cells[cell]++
	x.c.Inc("attempts")
	res := "rejected"
	if o.OK() {
		res = "accepted"
	}
	x.c.Inc("attempts_" + res)
	x.c.Eval(cell + "|" + res)
	switch {
	case o.OK() && !allowed[cls]:
		x.c.Violate("C46|"+op+"|accepted-for-"+cls, fmt.Sprintf("%s succeeded when signed by %s", op, cls), nil)
	case !o.OK() && len(o.Diff) != 0:
		x.c.Violate("C46|"+op+"|rejected-but-changed-state", fmt.Sprintf("%s by %s was rejected but changed state:%s", op, cls, o.DiffString()), nil)
	case o.OK():
		x.c.Inc("accepted_by_" + cls)
	default:
		x.c.Inc("rejected_for_" + cls)
	}
	if x.samples < 6 && !o.OK() && cls != clsAuthority {
		x.samples++
		x.c.Sample(map[string]any{"operation": op, "signer": cls, "result": res, "log": clip(o.Log)})
	}
	return o
}

var nobodyBut = func(cls ...string) map[string]bool {
	m := map[string]bool{}
	for _, c := range cls {
		m[c] = true
	}
	return m
}

// TestC46 runs the operation x signer-class matrix of privileged and client-scoped operations.
func TestC46(t *testing.T) {
	c := kit.NewCheck(t, "C46", "exploration",
		"matrix = {client recovery, software-upgrade scheduling, parameter updates of client/connection/transfer/ICA host/ICA controller, rate-limit add/update/remove/reset, counterparty registration (first and second time), client config update, creator deletion, "+
			"v2 recv/ack/timeout and client update under a relayer allow list, create/update/use of a client type outside the allowed-clients list} x {authority, client creator, listed relayer, stranger, stranger naming the authority as signer}; "+
			"strangers, creators and relayers sign real transactions, the authority's messages go through the message router; distinct = (operation, signer class, outcome) cells")
	defer c.Finish()
	c.Assume("wasm code storage/removal/migration (08-wasm module) is not part of this matrix; the authority is the gov module account as wired in testing/simapp")
	c.Floor("attempts", 120)
	c.Floor("rejected_for_stranger", 30)
	c.Floor("accepted_by_authority", 10)
	c.Floor("accepted_by_creator", 4)
	c.Floor("accepted_by_listed-relayer", 4)
	reps := c.N(2, 4)
	for i := 0; i < reps; i++ {
		if c.SkipCase(i) {
			continue
		}
		r := c.CaseRng(i)
		err := kit.Try(func() { c46Case(c, r, i) })
		c.Inc("cases")
		if err != nil {
			c.Inconcl(err.Error())
		}
	}
}

func c46Case(c *kit.Check, r *kit.Rng, idx int) {
	w := kit.NewWorld(c.T, 2)
	x := &c46{c: c, w: w, a: w.Chains[0], b: w.Chains[1], auth: authtypes.NewModuleAddress(govtypes.ModuleName).String(), cells: map[string]int{}}
	a, b := x.a, x.b
	path := ibctesting.NewTransferPath(a.TestChain, b.TestChain)
	path.Setup()
	signers := []string{clsStranger, clsCreator, clsRelayer, clsSpoof, clsAuthority}
	onlyAuth := nobodyBut(clsAuthority)

	// ---- 1. authority-only operations
	// client recovery: a frozen subject and an active substitute at a greater height
	subj := ibctesting.NewPath(a.TestChain, b.TestChain)
	subj.SetupClients()
	subst := ibctesting.NewPath(a.TestChain, b.TestChain)
	subst.SetupClients()
	subj.EndpointA.FreezeClient()
	a.Commit()
	if err := subst.EndpointA.UpdateClient(); err != nil {
		panic(kit.Abort{Msg: err.Error()})
	}
	for _, cls := range signers {
		x.attempt(a, "recover-client", cls, onlyAuth, func(s string) sdk.Msg {
			return clienttypes.NewMsgRecoverClient(s, subj.EndpointA.ClientID, subst.EndpointA.ClientID)
		})
	}
	// software upgrade scheduling
	for _, cls := range signers {
		x.attempt(a, "schedule-ibc-software-upgrade", cls, onlyAuth, func(s string) sdk.Msg {
			cs := ibctm.NewClientState(a.ChainID, ibctm.DefaultTrustLevel, ibctesting.TrustingPeriod, ibctesting.UnbondingPeriod+time.Hour, ibctesting.MaxClockDrift,
				clienttypes.NewHeight(1, uint64(a.App.LastBlockHeight())+1000), nil, ibctesting.UpgradePath)
			m, err := clienttypes.NewMsgIBCSoftwareUpgrade(s, upgradetypes.Plan{Name: fmt.Sprintf("up-%d", r.Intn(1000)), Height: a.App.LastBlockHeight() + 500 + int64(r.Intn(100))}, cs.ZeroCustomFields())
			if err != nil {
				panic(kit.Abort{Msg: err.Error()})
			}
			return m
		})
	}
	// parameter updates
	paramOps := []struct {
		name string
		mk   func(s string) sdk.Msg
	}{
		{"update-client-params", func(s string) sdk.Msg {
			return clienttypes.NewMsgUpdateParams(s, clienttypes.NewParams("07-tendermint", "06-solomachine", "09-localhost", "attestations"))
		}},
		{"update-connection-params", func(s string) sdk.Msg {
			return connectiontypes.NewMsgUpdateParams(s, connectiontypes.NewParams(uint64(10+r.Intn(50))*uint64(time.Second)))
		}},
		{"update-transfer-params", func(s string) sdk.Msg {
			return transfertypes.NewMsgUpdateParams(s, transfertypes.NewParams(true, true))
		}},
		{"update-ica-host-params", func(s string) sdk.Msg {
			return icahosttypes.NewMsgUpdateParams(s, icahosttypes.NewParams(true, []string{"*"}))
		}},
		{"update-ica-controller-params", func(s string) sdk.Msg {
			return icacontrollertypes.NewMsgUpdateParams(s, icacontrollertypes.NewParams(true))
		}},
	}
	for _, op := range paramOps {
		for _, cls := range signers {
			x.attempt(a, op.name, cls, onlyAuth, op.mk)
		}
	}
	// rate-limit administration
	ch := path.EndpointA.ChannelID
	rlOps := []struct {
		name string
		mk   func(s string) sdk.Msg
	}{
		{"add-rate-limit", func(s string) sdk.Msg {
			m := ratelimittypes.NewMsgAddRateLimit(sdk.DefaultBondDenom, ch, sdkmath.NewInt(int64(5+r.Intn(50))), sdkmath.NewInt(int64(5+r.Intn(50))), 1)
			m.Signer = s
			return m
		}},
		{"update-rate-limit", func(s string) sdk.Msg {
			m := ratelimittypes.NewMsgUpdateRateLimit(sdk.DefaultBondDenom, ch, sdkmath.NewInt(int64(5+r.Intn(50))), sdkmath.NewInt(int64(5+r.Intn(50))), 2)
			m.Signer = s
			return m
		}},
		{"reset-rate-limit", func(s string) sdk.Msg {
			m := ratelimittypes.NewMsgResetRateLimit(sdk.DefaultBondDenom, ch)
			m.Signer = s
			return m
		}},
		{"remove-rate-limit", func(s string) sdk.Msg {
			m := ratelimittypes.NewMsgRemoveRateLimit(sdk.DefaultBondDenom, ch)
			m.Signer = s
			return m
		}},
	}
	for _, op := range rlOps {
		for _, cls := range signers {
			x.attempt(a, op.name, cls, onlyAuth, op.mk)
		}
	}

	// ---- 2. counterparty registration: the creator, once
	// client identifiers are chain-local: in most cases one side has created more clients than the other, so that the two ends of the
	// v2 pair carry different identifiers (and the counterparty's identifier names an unrelated, unrestricted client locally)
	if extra := 1 + r.Intn(3); idx%3 != 2 {
		for j := 0; j < extra; j++ {
			p := ibctesting.NewPath(a.TestChain, b.TestChain)
			if extra%2 == 1 {
				p.EndpointB.CreateClient()
			} else {
				p.EndpointA.CreateClient()
			}
		}
		x.c.Inc("cases_with_different_client_ids_on_the_two_ends")
	}
	v2 := ibctesting.NewPath(a.TestChain, b.TestChain)
	v2.SetupClients() // clients created by account 0 of each chain (= creator)
	reg := func(s string) sdk.Msg {
		return clientv2types.NewMsgRegisterCounterparty(v2.EndpointA.ClientID, [][]byte{[]byte("ibc"), []byte("")}, v2.EndpointB.ClientID, s)
	}
	for _, cls := range []string{clsStranger, clsRelayer, clsSpoof, clsAuthority} {
		x.attempt(a, "register-counterparty-first", cls, nobodyBut(clsCreator), reg)
	}
	x.attempt(a, "register-counterparty-first", clsCreator, nobodyBut(clsCreator), reg)
	for _, cls := range []string{clsCreator, clsStranger, clsAuthority} {
		x.attempt(a, "register-counterparty-second-time", cls, nobodyBut(), reg)
	}
	// the other side, so that packets can flow
	if o := b.Deliver(b.Acct(0), clientv2types.NewMsgRegisterCounterparty(v2.EndpointB.ClientID, [][]byte{[]byte("ibc"), []byte("")}, v2.EndpointA.ClientID, b.Addr(0).String())); !o.OK() {
		panic(kit.Abort{Msg: "register on B: " + o.Log})
	}

	// ---- 3. client config and creator deletion: authority or creator
	relayerA := a.Addr(acctOf(clsRelayer)).String()
	cfgA := func(s string) sdk.Msg {
		return clientv2types.NewMsgUpdateClientConfig(v2.EndpointA.ClientID, s, clientv2types.NewConfig(relayerA))
	}
	for _, cls := range signers {
		x.attempt(a, "update-client-config", cls, nobodyBut(clsAuthority, clsCreator), cfgA)
	}
	relayerB := b.Addr(acctOf(clsRelayer)).String()
	if o := b.Deliver(b.Acct(0), clientv2types.NewMsgUpdateClientConfig(v2.EndpointB.ClientID, b.Addr(0).String(), clientv2types.NewConfig(relayerB))); !o.OK() {
		panic(kit.Abort{Msg: "config on B: " + o.Log})
	}

	// ---- 4. relayer allow list: v2 packet messages and client updates
	send := func() channeltypesv2.Packet {
		timeout := uint64(w.Coord.CurrentTime.Unix()) + 3600
		pl := mockv2.NewMockPayload(mockv2.PortIDA, mockv2.PortIDB)
		o := a.Deliver(a.Acct(5), channeltypesv2.NewMsgSendPacket(v2.EndpointA.ClientID, timeout, a.Addr(5).String(), pl))
		if !o.OK() {
			panic(kit.Abort{Msg: "v2 send: " + o.Log})
		}
		seq := a.App.GetIBCKeeper().ChannelKeeperV2
		n, _ := seq.GetNextSequenceSend(a.GetContext(), v2.EndpointA.ClientID)
		return channeltypesv2.NewPacket(n-1, v2.EndpointA.ClientID, v2.EndpointB.ClientID, timeout, pl)
	}
	listed := nobodyBut(clsRelayer)
	// client update on B under the allow list
	for _, cls := range []string{clsStranger, clsCreator, clsRelayer} {
		w.Coord.CommitBlock(a.TestChain)
		x.attempt(b, "update-client-with-allow-list", cls, listed, func(s string) sdk.Msg {
			th := b.App.GetIBCKeeper().ClientKeeper.GetClientLatestHeight(b.GetContext(), v2.EndpointB.ClientID)
			hdr, err := a.IBCClientHeader(a.LatestCommittedHeader, th)
			if err != nil {
				panic(kit.Abort{Msg: err.Error()})
			}
			m, err := clienttypes.NewMsgUpdateClient(v2.EndpointB.ClientID, hdr, s)
			if err != nil {
				panic(kit.Abort{Msg: err.Error()})
			}
			return m
		})
	}
	updateB := func() {
		w.Coord.CommitBlock(a.TestChain)
		th := b.App.GetIBCKeeper().ClientKeeper.GetClientLatestHeight(b.GetContext(), v2.EndpointB.ClientID)
		hdr, _ := a.IBCClientHeader(a.LatestCommittedHeader, th)
		m, _ := clienttypes.NewMsgUpdateClient(v2.EndpointB.ClientID, hdr, relayerB)
		if o := b.Deliver(b.Acct(acctOf(clsRelayer)), m); !o.OK() {
			panic(kit.Abort{Msg: "update B: " + o.Log})
		}
	}
	updateA := func() {
		w.Coord.CommitBlock(b.TestChain)
		th := a.App.GetIBCKeeper().ClientKeeper.GetClientLatestHeight(a.GetContext(), v2.EndpointA.ClientID)
		hdr, _ := b.IBCClientHeader(b.LatestCommittedHeader, th)
		m, _ := clienttypes.NewMsgUpdateClient(v2.EndpointA.ClientID, hdr, relayerA)
		if o := a.Deliver(a.Acct(acctOf(clsRelayer)), m); !o.OK() {
			panic(kit.Abort{Msg: "update A: " + o.Log})
		}
	}
	pk := send()
	updateB()
	for _, cls := range []string{clsStranger, clsCreator, clsRelayer} {
		x.attempt(b, "v2-recv-with-allow-list", cls, listed, func(s string) sdk.Msg {
			proof, ph := a.QueryProof(hostv2.PacketCommitmentKey(pk.SourceClient, pk.Sequence))
			return channeltypesv2.NewMsgRecvPacket(pk, proof, ph, s)
		})
	}
	updateA()
	ack := channeltypesv2.NewAcknowledgement(mockv2.MockRecvPacketResult.Acknowledgement)
	for _, cls := range []string{clsStranger, clsCreator, clsRelayer} {
		x.attempt(a, "v2-ack-with-allow-list", cls, listed, func(s string) sdk.Msg {
			proof, ph := b.QueryProof(hostv2.PacketAcknowledgementKey(pk.DestinationClient, pk.Sequence))
			return channeltypesv2.NewMsgAcknowledgement(pk, ack, proof, ph, s)
		})
	}
	// timeout: a second packet with a short timeout that is never received
	tt := uint64(w.Coord.CurrentTime.Unix()) + 30
	pl := mockv2.NewMockPayload(mockv2.PortIDA, mockv2.PortIDB)
	if o := a.Deliver(a.Acct(5), channeltypesv2.NewMsgSendPacket(v2.EndpointA.ClientID, tt, a.Addr(5).String(), pl)); !o.OK() {
		panic(kit.Abort{Msg: "v2 send 2: " + o.Log})
	}
	n, _ := a.App.GetIBCKeeper().ChannelKeeperV2.GetNextSequenceSend(a.GetContext(), v2.EndpointA.ClientID)
	pk2 := channeltypesv2.NewPacket(n-1, v2.EndpointA.ClientID, v2.EndpointB.ClientID, tt, pl)
	for i := 0; i < 10; i++ {
		b.Commit()
	}
	updateA()
	for _, cls := range []string{clsStranger, clsCreator, clsRelayer} {
		x.attempt(a, "v2-timeout-with-allow-list", cls, listed, func(s string) sdk.Msg {
			proof, ph := b.QueryProof(hostv2.PacketReceiptKey(pk2.DestinationClient, pk2.Sequence))
			return channeltypesv2.NewMsgTimeout(pk2, proof, ph, s)
		})
	}

	// creator deletion (after the allow-list part, which needs the creator for nothing)
	del := func(s string) sdk.Msg { return clienttypes.NewMsgDeleteClientCreator(v2.EndpointA.ClientID, s) }
	for _, cls := range []string{clsStranger, clsRelayer, clsSpoof} {
		x.attempt(a, "delete-client-creator", cls, nobodyBut(clsAuthority, clsCreator), del)
	}
	if r.Bool() {
		x.attempt(a, "delete-client-creator", clsCreator, nobodyBut(clsAuthority, clsCreator), del)
	} else {
		x.attempt(a, "delete-client-creator", clsAuthority, nobodyBut(clsAuthority, clsCreator), del)
	}
	// once the creator is gone, nobody but the authority can change the configuration
	for _, cls := range []string{clsCreator, clsStranger, clsAuthority} {
		x.attempt(a, "update-client-config-after-creator-deleted", cls, nobodyBut(clsAuthority), cfgA)
	}

	// ---- 5. allowed-clients list: a type outside the list cannot be created, updated or used
	thBefore := a.App.GetIBCKeeper().ClientKeeper.GetClientLatestHeight(a.GetContext(), path.EndpointA.ClientID)
	restrict := clienttypes.NewMsgUpdateParams(x.auth, clienttypes.NewParams("06-solomachine"))
	h := a.Sim.MsgServiceRouter().Handler(restrict)
	if o := a.InBlock(func(ctx sdk.Context) error { _, err := h(ctx, restrict); return err }); !o.OK() {
		panic(kit.Abort{Msg: "restrict: " + o.Log})
	}
	none := nobodyBut()
	fresh := ibctesting.NewPath(a.TestChain, b.TestChain)
	w.Coord.CommitBlock(b.TestChain)
	for _, cls := range []string{clsStranger, clsCreator} {
		x.attempt(a, "create-client-of-disallowed-type", cls, none, func(s string) sdk.Msg {
			height := b.LatestCommittedHeader.GetHeight().(clienttypes.Height)
			cs := ibctm.NewClientState(b.ChainID, ibctm.DefaultTrustLevel, ibctesting.TrustingPeriod, ibctesting.UnbondingPeriod, ibctesting.MaxClockDrift, height, nil, ibctesting.UpgradePath)
			m, err := clienttypes.NewMsgCreateClient(cs, b.LatestCommittedHeader.ConsensusState(), s)
			if err != nil {
				panic(kit.Abort{Msg: err.Error()})
			}
			return m
		})
	}
	_ = fresh
	for _, cls := range []string{clsStranger, clsCreator} {
		w.Coord.CommitBlock(b.TestChain)
		x.attempt(a, "update-client-of-disallowed-type", cls, none, func(s string) sdk.Msg {
			hdr, err := b.IBCClientHeader(b.LatestCommittedHeader, thBefore)
			if err != nil {
				panic(kit.Abort{Msg: err.Error()})
			}
			m, _ := clienttypes.NewMsgUpdateClient(path.EndpointA.ClientID, hdr, s)
			return m
		})
	}
	for _, cls := range []string{clsStranger, clsCreator} {
		x.attempt(a, "send-through-client-of-disallowed-type", cls, none, func(s string) sdk.Msg {
			return transfertypes.NewMsgTransfer("transfer", path.EndpointA.ChannelID, sdk.NewCoin(sdk.DefaultBondDenom, sdkmath.NewInt(5)), s, b.Addr(1).String(), clienttypes.NewHeight(1, 100000), 0, "")
		})
	}
	// receive through the disallowed client: a packet B really sent
	tmsg := transfertypes.NewMsgTransfer("transfer", path.EndpointB.ChannelID, sdk.NewCoin(sdk.DefaultBondDenom, sdkmath.NewInt(5)), b.Addr(1).String(), a.Addr(1).String(), clienttypes.NewHeight(1, 100000), 0, "")
	if o := b.Deliver(b.Acct(1), tmsg); o.OK() {
		if pkv1, err := ibctesting.ParseV1PacketFromEvents(o.Res.Events); err == nil {
			b.Commit()
			for _, cls := range []string{clsStranger, clsCreator} {
				x.attempt(a, "recv-through-client-of-disallowed-type", cls, none, func(s string) sdk.Msg {
					proof, ph := b.QueryProof(hostKeyV1(pkv1.SourcePort, pkv1.SourceChannel, pkv1.Sequence))
					return channeltypesV1Recv(pkv1, proof, ph, s)
				})
			}
		}
	}
	// restore
	allow := clienttypes.NewMsgUpdateParams(x.auth, clienttypes.DefaultParams())
	h2 := a.Sim.MsgServiceRouter().Handler(allow)
	a.InBlock(func(ctx sdk.Context) error { _, err := h2(ctx, allow); return err })
}
