package sys

import (
	sdk "github.com/cosmos/cosmos-sdk/types"

	clienttypes "github.com/cosmos/ibc-go/v11/modules/core/02-client/types"
	channeltypes "github.com/cosmos/ibc-go/v11/modules/core/04-channel/types"
	host "github.com/cosmos/ibc-go/v11/modules/core/24-host"
)

func hostKeyV1(port, channel string, seq uint64) []byte { return host.PacketCommitmentKey(port, channel, seq) }

func channeltypesV1Recv(p channeltypes.Packet, proof []byte, ph clienttypes.Height, signer string) sdk.Msg {
	return channeltypes.NewMsgRecvPacket(p, proof, ph, signer)
}
