package sys

import (
	"bytes"
	"crypto/sha256"
	"encoding/hex"
	"encoding/json"
	"fmt"
	"os"
	"os/exec"
	"path/filepath"
	"sort"
	"strconv"
	"testing"

	dbm "github.com/cosmos/cosmos-db"
	"github.com/cosmos/gogoproto/proto"

	"cosmossdk.io/log/v2"

	"github.com/cosmos/cosmos-sdk/baseapp"
	simtestutil "github.com/cosmos/cosmos-sdk/testutil/sims"
	sdk "github.com/cosmos/cosmos-sdk/types"

	abci "github.com/cometbft/cometbft/abci/types"
	cmtproto "github.com/cometbft/cometbft/proto/tendermint/types"

	"github.com/cosmos/ibc-go/v11/testing/simapp"

	"verif/harness/kit"
	"verif/harness/pkt"
)

// c45File is the serialised block history of one chain.
type c45File struct {
	ChainID string   `json:"chain_id"`
	Init    []byte   `json:"init"`
	Blocks  [][]byte `json:"blocks"`
	Hashes  []string `json:"hashes"`
}

// c45Digest is what a node must agree on with every other node that ran the same blocks.
type c45Digest struct {
	Blocks      int               `json:"blocks"`
	FirstDiff   int               `json:"first_diff"` // first block whose app hash differed from the recorded one, -1 if none
	FinalHash   string            `json:"final_hash"`
	Export      map[string]string `json:"export"`  // module -> sha256 of its exported genesis section
	Queries     map[string]string `json:"queries"` // list query -> sha256 of its result in the order returned
	Gomaxprocs  string            `json:"gomaxprocs"`
	Gogc        string            `json:"gogc"`
	Pid         int               `json:"pid"`
	Err         string            `json:"err,omitempty"`
}

func sum(b []byte) string { h := sha256.Sum256(b); return hex.EncodeToString(h[:]) }

// digestApp computes the order-sensitive digests of exported genesis and module-defined list queries.
func digestApp(app *simapp.SimApp, header cmtproto.Header) (map[string]string, map[string]string, error) {
	header.Height = app.LastBlockHeight()
	ctx := app.BaseApp.NewUncachedContext(false, header)
	gen, err := app.ModuleManager.ExportGenesis(ctx, app.AppCodec())
	if err != nil {
		return nil, nil, err
	}
	ex := map[string]string{}
	for _, m := range c44Modules {
		if g, ok := gen[m]; ok {
			ex[m] = sum(g)
		}
	}
	q := map[string]string{}
	add := func(name string, v any) {
		bz, err := json.Marshal(v)
		if err != nil {
			bz = []byte(fmt.Sprintf("%#v", v))
		}
		q[name] = sum(bz)
	}
	k := app.IBCKeeper
	add("transfer.GetAllDenoms", app.TransferKeeper.GetAllDenoms(ctx))
	add("transfer.GetAllTotalEscrowed", app.TransferKeeper.GetAllTotalEscrowed(ctx))
	add("channel.GetAllChannels", k.ChannelKeeper.GetAllChannels(ctx))
	add("channel.GetAllPacketCommitments", k.ChannelKeeper.GetAllPacketCommitments(ctx))
	add("channel.GetAllPacketReceipts", k.ChannelKeeper.GetAllPacketReceipts(ctx))
	add("channel.GetAllPacketAcks", k.ChannelKeeper.GetAllPacketAcks(ctx))
	add("channel.GetAllPacketSendSeqs", k.ChannelKeeper.GetAllPacketSendSeqs(ctx))
	add("connection.GetAllConnections", k.ConnectionKeeper.GetAllConnections(ctx))
	add("connection.GetAllClientConnectionPaths", k.ConnectionKeeper.GetAllClientConnectionPaths(ctx))
	clients := k.ClientKeeper.GetAllGenesisClients(ctx)
	var ids []string
	for _, c := range clients {
		ids = append(ids, c.ClientId)
	}
	add("client.GetAllGenesisClients.ids", ids)
	add("client.GetAllConsensusStates", fmt.Sprint(k.ClientKeeper.GetAllConsensusStates(ctx)))
	for _, id := range ids {
		add("v2.commitments."+id, k.ChannelKeeperV2.GetAllPacketCommitmentsForClient(ctx, id))
		add("v2.receipts."+id, k.ChannelKeeperV2.GetAllPacketReceiptsForClient(ctx, id))
		add("v2.acks."+id, k.ChannelKeeperV2.GetAllPacketAcknowledgementsForClient(ctx, id))
	}
	add("ratelimit.GetAllRateLimits", app.RateLimitKeeper.GetAllRateLimits(ctx))
	add("port.router.v1.keys", k.PortKeeper.Router.Keys())
	return ex, q, nil
}

// TestC45Replica is the body of a replica process: it replays a recorded block history on a fresh application.
func TestC45Replica(t *testing.T) {
	rec := os.Getenv("C45_RECORD")
	if rec == "" {
		t.Skip("replica mode only")
	}
	out := os.Getenv("C45_RESULT")
	d := c45Digest{FirstDiff: -1, Gomaxprocs: os.Getenv("GOMAXPROCS"), Gogc: os.Getenv("GOGC"), Pid: os.Getpid()}
	defer func() {
		if r := recover(); r != nil {
			d.Err = fmt.Sprint("panic: ", r)
		}
		bz, _ := json.Marshal(d)
		_ = os.WriteFile(out, bz, 0o644)
	}()
	bz, err := os.ReadFile(rec)
	if err != nil {
		d.Err = err.Error()
		return
	}
	var f c45File
	if err := json.Unmarshal(bz, &f); err != nil {
		d.Err = err.Error()
		return
	}
	app := simapp.NewSimApp(log.NewNopLogger(), dbm.NewMemDB(), nil, true, simtestutil.EmptyAppOptions{})
	pkt.InstallAppsOn(app)
	baseapp.SetChainID(f.ChainID)(app.GetBaseApp())
	var init abci.RequestInitChain
	if err := proto.Unmarshal(f.Init, &init); err != nil {
		d.Err = err.Error()
		return
	}
	if _, err := app.InitChain(&init); err != nil {
		d.Err = "InitChain: " + err.Error()
		return
	}
	var last abci.RequestFinalizeBlock
	for i, b := range f.Blocks {
		var req abci.RequestFinalizeBlock
		if err := proto.Unmarshal(b, &req); err != nil {
			d.Err = err.Error()
			return
		}
		res, err := app.FinalizeBlock(&req)
		if err != nil {
			d.Err = fmt.Sprintf("FinalizeBlock %d: %v", i, err)
			return
		}
		if hex.EncodeToString(res.AppHash) != f.Hashes[i] && d.FirstDiff < 0 {
			d.FirstDiff = i
		}
		if _, err := app.Commit(); err != nil {
			d.Err = err.Error()
			return
		}
		d.FinalHash = hex.EncodeToString(res.AppHash)
		d.Blocks++
		last = req
	}
	d.Export, d.Queries, err = digestApp(app, cmtproto.Header{ChainID: f.ChainID, Height: last.Height, Time: last.Time})
	if err != nil {
		d.Err = err.Error()
	}
}

// TestC45: the same blocks on independently started nodes (fresh processes, different GOMAXPROCS / GC settings and
// therefore different map-iteration seeds and schedules) must give the same app hash after every block, the same
// exported genesis and the same ordered query results.
func TestC45(t *testing.T) {
	c := kit.NewCheck(t, "C45", "exploration",
		"cases = PRNG-determined hostile relay histories over transfer (v1 + alias) and v2 client-pair lanes in which every state change is a transaction; all ABCI requests (InitChain, every FinalizeBlock) of both chains are recorded and replayed by replica processes with GOMAXPROCS in {1,3,16} and GOGC in {5,100,off}; "+
			"compared per block: app hash; at the end: sha256 of every IBC module's exported genesis section and of ~20 module-defined list queries; distinct = distinct (history, chain, replica configuration) triples; non-trivial = history with more than 30 blocks containing packet traffic")
	defer c.Finish()
	c.Assume("replicas run the same binary; CometBFT is replaced by direct ABCI calls; only application-side determinism is judged")
	c.Floor("replicas_compared", 8)
	c.Floor("blocks_replayed", 300)
	c.Floor("digests_compared", 100)
	out := os.Getenv("VERIF_OUT")
	if out == "" {
		out = os.TempDir()
	}
	n := c.N(2, 2)
	type cfg struct{ procs, gc string }
	cfgs := []cfg{{"1", "100"}, {"3", "5"}, {"16", "off"}}
	if c.Thorough() {
		cfgs = append(cfgs, cfg{"2", "1"}, cfg{"8", "50"})
	}
	for i := 0; i < n; i++ {
		if c.SkipCase(i) {
			continue
		}
		r := c.CaseRng(i)
		err := kit.Try(func() {
			s := pkt.NewSim(c, r, pkt.SimOpts{Transfer: true, V2: true, Alias: true, RecordABCI: true, SameChannelIDs: true})
			s.Focus = "none"
			pr := pkt.DefaultProfile()
			pr.AsyncAck, pr.Close, pr.Redirect = 0, 0, 0 // keeper-level calls are not transactions and cannot be replayed
			nops := 55 + r.Intn(30)
			if c.Thorough() {
				nops *= 3
			}
			for j := 0; j < nops; j++ {
				s.Step(pr)
			}
			for ci, ch := range s.Ch {
				rec := ch.ABCI
				if rec == nil || rec.Init == nil || len(rec.Blocks) == 0 {
					c.Inconcl("no ABCI record")
					continue
				}
				f := c45File{ChainID: ch.ChainID}
				f.Init, _ = proto.Marshal(rec.Init)
				for bi := range rec.Blocks {
					bz, _ := proto.Marshal(&rec.Blocks[bi])
					f.Blocks = append(f.Blocks, bz)
					f.Hashes = append(f.Hashes, hex.EncodeToString(rec.AppHash[bi]))
				}
				path := filepath.Join(out, fmt.Sprintf("c45-%s-%d.json", c.CaseID(i), ci))
				bz, _ := json.Marshal(f)
				if err := os.WriteFile(path, bz, 0o644); err != nil {
					panic(kit.Abort{Msg: err.Error()})
				}
				lastReq := rec.Blocks[len(rec.Blocks)-1]
				refEx, refQ, err := digestApp(ch.Sim, cmtproto.Header{ChainID: ch.ChainID, Height: lastReq.Height, Time: lastReq.Time})
				if err != nil {
					c.Inconcl("recorder digest: " + err.Error())
					continue
				}
				type run struct {
					cmd *exec.Cmd
					res string
					cf  cfg
				}
				var runs []run
				for ri, cf := range cfgs {
					res := filepath.Join(out, fmt.Sprintf("c45-%s-%d-r%d.json", c.CaseID(i), ci, ri))
					cmd := exec.Command(os.Args[0], "-test.run", "^TestC45Replica$", "-test.timeout", "0")
					cmd.Env = append(os.Environ(), "C45_RECORD="+path, "C45_RESULT="+res, "GOMAXPROCS="+cf.procs, "GOGC="+cf.gc, "VERIF_OUT="+filepath.Join(out, "replica-"+strconv.Itoa(ri)))
					if err := cmd.Start(); err != nil {
						c.Inconcl("cannot start replica: " + err.Error())
						continue
					}
					runs = append(runs, run{cmd, res, cf})
				}
				for _, rn := range runs {
					_ = rn.cmd.Wait()
					var d c45Digest
					bz, err := os.ReadFile(rn.res)
					if err != nil || json.Unmarshal(bz, &d) != nil {
						c.Inconcl("replica produced no result")
						continue
					}
					if d.Err != "" {
						c.Inconcl("replica error: " + d.Err)
						continue
					}
					c.Inc("replicas_compared")
					c.Obs("blocks_replayed", int64(d.Blocks))
					who := fmt.Sprintf("chain %s replica GOMAXPROCS=%s GOGC=%s", ch.Name, rn.cf.procs, rn.cf.gc)
					if d.FirstDiff >= 0 {
						c.Violate("C45|app-hash-differs", fmt.Sprintf("%s: app hash differs from the recording node at block %d of %d", who, d.FirstDiff, d.Blocks), map[string]any{"record": path})
					}
					if d.Blocks != len(rec.Blocks) {
						c.Violate("C45|replay-incomplete", fmt.Sprintf("%s replayed %d of %d blocks", who, d.Blocks, len(rec.Blocks)), nil)
					}
					for _, m := range sortedK(refEx) {
						c.Inc("digests_compared")
						if d.Export[m] != refEx[m] {
							c.Violate("C45|export-differs|"+m, fmt.Sprintf("%s: exported genesis section %s differs from the recording node's", who, m), map[string]any{"record": path})
						}
					}
					for _, qn := range sortedK(refQ) {
						c.Inc("digests_compared")
						if d.Queries[qn] != refQ[qn] {
							name := qn
							if i := bytes.IndexByte([]byte(qn), '.'); i > 0 && len(qn) > 3 && qn[:3] == "v2." {
								name = "v2"
							}
							c.Violate("C45|query-differs|"+name, fmt.Sprintf("%s: result of %s differs from the recording node's", who, qn), map[string]any{"record": path})
						}
					}
					cls := ""
					if len(rec.Blocks) > 30 {
						cls = fmt.Sprintf("%s|%d|%s|%s/%s", c.CaseID(i), ci, d.FinalHash[:8], rn.cf.procs, rn.cf.gc)
					}
					c.Eval(cls)
				}
				if ci == 0 {
					c.Sample(map[string]any{"case": c.CaseID(i), "chain": ch.Name, "blocks": len(rec.Blocks), "txs_in_last_blocks": len(lastReq.Txs), "final_app_hash": hex.EncodeToString(rec.AppHash[len(rec.AppHash)-1]), "queries_digested": len(refQ)})
				}
			}
		})
		c.Inc("cases")
		if err != nil {
			c.Inconcl(err.Error())
		}
	}
}

func sortedK(m map[string]string) []string {
	ks := make([]string, 0, len(m))
	for k := range m {
		ks = append(ks, k)
	}
	sort.Strings(ks)
	return ks
}

var _ sdk.Context
