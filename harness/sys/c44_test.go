// Package sys holds the whole-system checks: genesis export/import (C44), determinism (C45), privileged signers (C46).
package sys

import (
	"bytes"
	"encoding/json"
	"fmt"
	"regexp"
	"sort"
	"strings"
	"testing"
	"time"

	dbm "github.com/cosmos/cosmos-db"

	"cosmossdk.io/log/v2"

	"github.com/cosmos/cosmos-sdk/baseapp"
	simtestutil "github.com/cosmos/cosmos-sdk/testutil/sims"
	sdk "github.com/cosmos/cosmos-sdk/types"

	abci "github.com/cometbft/cometbft/abci/types"
	cmttypes "github.com/cometbft/cometbft/types"

	ratelimittypes "github.com/cosmos/ibc-go/v11/modules/apps/rate-limiting/types"
	clienttypes "github.com/cosmos/ibc-go/v11/modules/core/02-client/types"
	ibctesting "github.com/cosmos/ibc-go/v11/testing"
	"github.com/cosmos/ibc-go/v11/testing/simapp"

	"verif/harness/kit"
	"verif/harness/pkt"
)

// stores whose whole contents must survive export/import
var c44Stores = []string{"ibc", "transfer", "ratelimit", "packetforward", "icacontroller", "icahost", "gmp"}

// genesis sections compared on re-export
var c44Modules = []string{"ibc", "transfer", "ratelimiting", "packetfowardmiddleware", "interchainaccounts", "gmp"}

var (
	reAliasKey  = regexp.MustCompile(`^channel-\d+alias$`)
	reAliasCp   = regexp.MustCompile(`^clients/channel-\d+/counterparty$`)
	reAliasPkt  = regexp.MustCompile(`^channel-\d+[\x01\x02\x03]`)
	reAliasAsyn = regexp.MustCompile(`^channel-\d+async_packet`)
)

// keyClass abstracts a store key for the violation signature.
func keyClass(store string, key []byte) string {
	k := string(key)
	if store == "ibc" {
		switch {
		case reAliasKey.MatchString(k), reAliasCp.MatchString(k), reAliasPkt.Match(key), reAliasAsyn.MatchString(k):
			return "v2-state-of-aliased-channel"
		}
		parts := strings.SplitN(k, "/", 3)
		if parts[0] == "clients" && len(parts) == 3 {
			sub := parts[2]
			if i := strings.Index(sub, "/"); i > 0 {
				sub = sub[:i]
			}
			return "clients/*/" + strings.TrimRight(sub, "0123456789-")
		}
		// v2 keys of real clients: "<client-id><tag>…"
		if m := regexp.MustCompile(`^[a-z0-9-]+-\d+([\x01\x02\x03]|async_packet)`).FindStringSubmatch(k); m != nil {
			return "v2-packet-state-of-client"
		}
		return parts[0]
	}
	if i := strings.IndexAny(k, "/\x00"); i > 0 {
		return k[:i]
	}
	if len(k) > 0 && k[0] < 0x20 {
		return fmt.Sprintf("prefix-%02x", k[0])
	}
	return "key"
}

// exportTwin exports the whole application state of chain `orig` and starts a fresh application from it.
func exportTwin(w *kit.World, orig *kit.Chain) (*kit.Chain, map[string]json.RawMessage, error) {
	// NOTE: the module manager exports modules on parallel goroutines: use a context over the committed root store
	// (a cache context's lazily created store wrappers are not safe for that)
	ctx := exportCtx(orig)
	gen, err := orig.Sim.ModuleManager.ExportGenesis(ctx, orig.Sim.AppCodec())
	if err != nil {
		return nil, nil, err
	}
	state, err := json.Marshal(gen)
	if err != nil {
		return nil, nil, err
	}
	app := simapp.NewSimApp(log.NewNopLogger(), dbm.NewMemDB(), nil, true, simtestutil.EmptyAppOptions{})
	baseapp.SetChainID(orig.ChainID)(app.GetBaseApp())
	h := orig.App.LastBlockHeight()
	var initErr error
	if perr := kit.TryAll(func() {
		_, initErr = app.InitChain(&abci.RequestInitChain{
			ChainId: orig.ChainID, Validators: []abci.ValidatorUpdate{}, AppStateBytes: state,
			ConsensusParams: simtestutil.DefaultConsensusParams, InitialHeight: h + 1, Time: orig.ProposedHeader.Time,
		})
	}); perr != nil {
		return nil, nil, perr
	}
	if initErr != nil {
		return nil, nil, initErr
	}
	tc := &ibctesting.TestChain{
		TB: kit.PanicTB{TB: w.T}, Coordinator: w.Coord, App: app, ChainID: orig.ChainID,
		ProposedHeader: orig.ProposedHeader, TxConfig: app.GetTxConfig(), Codec: app.AppCodec(),
		Vals: orig.Vals, NextVals: orig.NextVals, Signers: orig.Signers,
		TrustedValidators: map[uint64]*cmttypes.ValidatorSet{},
	}
	for k, v := range orig.TrustedValidators {
		tc.TrustedValidators[k] = v
	}
	twin := kit.WrapChain(w, tc, app, orig.Name+"'")
	pkt.InstallApps(twin)
	twin.CopyNoise(orig)
	// first block of the new chain = the block the original commits next
	tc.NextBlock()
	// accounts: same keys, sequence numbers as imported
	for _, sa := range orig.SenderAccounts {
		acc := app.AccountKeeper.GetAccount(tc.GetContext(), sa.SenderAccount.GetAddress())
		if acc == nil {
			return nil, nil, fmt.Errorf("account %s missing after import", sa.SenderAccount.GetAddress())
		}
		tc.SenderAccounts = append(tc.SenderAccounts, ibctesting.SenderAccount{SenderPrivKey: sa.SenderPrivKey, SenderAccount: acc})
	}
	tc.SenderPrivKey, tc.SenderAccount = tc.SenderAccounts[0].SenderPrivKey, tc.SenderAccounts[0].SenderAccount
	return twin, gen, nil
}

func exportCtx(ch *kit.Chain) sdk.Context {
	h := ch.ProposedHeader
	h.Height = ch.App.LastBlockHeight()
	return ch.Sim.BaseApp.NewUncachedContext(false, h)
}

type kdiff struct {
	store, class, kind string
	key                []byte
}

func compareStores(a, b *kit.Chain, stores []string, skip func(store string, key []byte) bool) []kdiff {
	var out []kdiff
	for _, st := range stores {
		am, bm := a.StoreMap(st), b.StoreMap(st)
		for k, av := range am {
			if skip != nil && skip(st, []byte(k)) {
				continue
			}
			bv, ok := bm[k]
			switch {
			case !ok:
				out = append(out, kdiff{st, keyClass(st, []byte(k)), "lost", []byte(k)})
			case !bytes.Equal(av, bv):
				out = append(out, kdiff{st, keyClass(st, []byte(k)), "changed", []byte(k)})
			}
		}
		for k := range bm {
			if skip != nil && skip(st, []byte(k)) {
				continue
			}
			if _, ok := am[k]; !ok {
				out = append(out, kdiff{st, keyClass(st, []byte(k)), "added", []byte(k)})
			}
		}
	}
	sort.Slice(out, func(i, j int) bool { return out[i].store+string(out[i].key) < out[j].store+string(out[j].key) })
	return out
}

// TestC44: export → fresh chain → (a) store equality, (b) identical re-export, (c) the imported chain processes the
// same relay messages as the original with the same outcomes.
func TestC44(t *testing.T) {
	c := kit.NewCheck(t, "C44", "exploration",
		"cases = PRNG-determined hostile relay histories over v1 UNORDERED/ORDERED mock, transfer, v2 client pair and v2-over-alias lanes, stopped at a PRNG-chosen point; one chain is exported (all modules) and a fresh application is started from the export; "+
			"(a) every key of the ibc/transfer/rate-limit/forward/ICA/GMP stores is compared, (b) both chains are re-exported and compared, (c) the same update/receive/acknowledge/timeout messages for all in-flight packets are applied to the original and to the imported chain and their outcomes compared; "+
			"distinct = distinct multisets of in-flight packet states at the export point; non-trivial = at least one packet in flight")
	defer c.Finish()
	c.Assume("the exported chain keeps its validator set and account keys; CometBFT-side state (validator updates) is outside the property")
	c.Floor("exports", 8)
	c.Floor("store_keys_compared", 800)
	c.Floor("continuation_messages", 25)
	n := c.N(16, 16)
	for i := 0; i < n; i++ {
		if c.SkipCase(i) {
			continue
		}
		r := c.CaseRng(i)
		err := kit.Try(func() { c44Case(c, r, i) })
		c.Inc("cases")
		if err != nil {
			c.Inconcl(err.Error())
		}
	}
}

func c44Case(c *kit.Check, r *kit.Rng, idx int) {
	opts := pkt.AllLanes()
	// ibctesting hands out the same client ids on both chains; half of the cases shift chain A's ids by one
	opts.DesyncClientIDs = idx%4 != 3
	s := pkt.NewSim(c, r, opts)
	s.Focus = "none" // the packet monitors are judged by their own checks
	// the rate-limit module re-derives its hour epoch on import; during the very first hour after 00:00 that changes an
	// informational field (epoch start height). Histories therefore start later than that, and the epoch key is then
	// compared byte for byte like every other key.
	// (ibctesting initialises chains at the zero time, which leaves the epoch unstarted; start it the way a chain
	// initialised at a real time would have)
	s.W.Coord.IncrementTimeBy(95 * time.Minute)
	for _, ch := range s.Ch {
		c0 := ch
		c0.InBlock(func(ctx sdk.Context) error {
			return c0.Sim.RateLimitKeeper.SetHourEpoch(ctx, ratelimittypes.HourEpoch{
				EpochNumber: uint64(ctx.BlockTime().Hour()), Duration: time.Hour,
				EpochStartTime: ctx.BlockTime().Truncate(time.Hour), EpochStartHeight: ctx.BlockHeight(),
			})
		})
	}
	pr := pkt.DefaultProfile()
	pr.Close = 0
	nops := 35 + r.Intn(60)
	for j := 0; j < nops; j++ {
		s.Step(pr)
	}
	// make sure packets are in flight at the export point: a burst of sends (and a few receives) nobody relays further
	burst := pkt.Profile{Send: 10, Recv: 3, Commit: 1, SoonPct: 30, MultiPayloadPct: 30}
	for j := 0; j < 14+r.Intn(10); j++ {
		s.Step(burst)
	}
	side := r.Intn(2)
	orig, other := s.Ch[side], s.Ch[1-side]
	_ = other
	twin, gen, err := exportTwin(s.W, orig)
	if err != nil {
		sig := "C44|export-or-init-failed"
		if strings.Contains(err.Error(), "counterparty client id and client id cannot be the same") {
			sig = "C44|import-rejects-exported-state|v2-counterparty-with-the-same-client-id"
			c.Inc("imports_refused_same_client_id")
		}
		c.Violate(sig, fmt.Sprintf("export / InitChain failed: %v", err), nil)
		c.Eval("")
		return
	}
	c.Inc("exports")
	// the original commits the same (empty) block so that both are at the same height
	orig.Commit()
	if orig.App.LastBlockHeight() != twin.App.LastBlockHeight() {
		panic(kit.Abort{Msg: fmt.Sprintf("height mismatch %d vs %d", orig.App.LastBlockHeight(), twin.App.LastBlockHeight())})
	}
	// ---------- (a) store equality
	var state []string
	for _, p := range s.Pkts {
		state = append(state, fmt.Sprintf("%s:%v:%v", p.L.Name, p.Received(), p.IsTerminal()))
	}
	sort.Strings(state)
	inflight := 0
	for _, p := range s.Pkts {
		if !p.IsTerminal() {
			inflight++
		}
	}
	for _, st := range c44Stores {
		c.Obs("store_keys_compared", int64(len(orig.StoreMap(st))))
	}
	diffs := compareStores(orig, twin, c44Stores, nil)
	seen := map[string]bool{}
	for _, d := range diffs {
		sig := fmt.Sprintf("C44|%s-on-import|%s|%s", d.kind, d.store, d.class)
		if seen[sig] {
			continue
		}
		seen[sig] = true
		c.Violate(sig, fmt.Sprintf("store %s key %q (%s) %s after export → InitChain: original %q imported %q", d.store, d.key, d.class, d.kind, orig.StoreGet(d.store, d.key), twin.StoreGet(d.store, d.key)), map[string]any{"key": fmt.Sprintf("%q", d.key)})
	}
	c.Obs("store_key_differences", int64(len(diffs)))
	// ---------- (b) re-export of both chains at the same height
	ctxO, ctxT := exportCtx(orig), exportCtx(twin)
	gO, err1 := orig.Sim.ModuleManager.ExportGenesis(ctxO, orig.Sim.AppCodec())
	gT, err2 := twin.Sim.ModuleManager.ExportGenesis(ctxT, twin.Sim.AppCodec())
	if err1 != nil || err2 != nil {
		c.Violate("C44|re-export-failed", fmt.Sprintf("re-export failed: %v %v", err1, err2), nil)
	} else {
		for _, m := range c44Modules {
			if _, ok := gO[m]; !ok {
				continue
			}
			c.Inc("genesis_sections_compared")
			if !bytes.Equal(gO[m], gT[m]) {
				sig := "C44|re-export-differs|" + m
				if len(diffs) > 0 && onlyAlias(diffs) && m == "ibc" {
					sig = "C44|re-export-differs|ibc|v2-state-of-aliased-channel"
				}
				c.Violate(sig, fmt.Sprintf("genesis section %q of the imported chain differs from the original's at the same height (%d vs %d bytes)", m, len(gT[m]), len(gO[m])), nil)
			}
		}
	}
	_ = gen
	// ---------- (c) differential continuation: the imported chain as verifier
	c44Continue(c, s, side, orig, twin)
	if inflight > 0 {
		c.Eval(strings.Join(state, ","))
	} else {
		c.Eval("")
	}
	if idx < 3 {
		c.Sample(map[string]any{"case": c.CaseID(idx), "exported_chain": orig.Name, "height": orig.App.LastBlockHeight(), "packets": state, "key_differences": len(diffs)})
	}
}

func onlyAlias(d []kdiff) bool {
	for _, x := range d {
		if x.class != "v2-state-of-aliased-channel" {
			return false
		}
	}
	return true
}

// deliverBoth sends the same message to the original and to the imported chain and compares the outcome classes.
func deliverBoth(c *kit.Check, s *pkt.Sim, orig, twin *kit.Chain, msg sdk.Msg, signerIdx int, what, lane string) {
	o1 := orig.Deliver(orig.Acct(signerIdx), msg)
	o2 := twin.Deliver(twin.Acct(signerIdx), msg)
	c.Inc("continuation_messages")
	cls := func(o *kit.Outcome) string {
		return fmt.Sprintf("ok=%v/%s/cbs=%d", o.OK(), pkt.RespResult(o), len(o.CBs))
	}
	if cls(o1) != cls(o2) {
		kind := "lane=" + lane
		if strings.HasSuffix(lane, "A") {
			kind = "v2-state-of-aliased-channel"
		}
		c.Violate("C44|continuation-differs|"+what+"|"+kind, fmt.Sprintf("%s on lane %s: original %s, imported chain %s (%s)", what, lane, cls(o1), cls(o2), clip(o2.Log)), nil)
	} else {
		c.Inc("continuation_same_outcome")
	}
}

func clip(s string) string {
	if len(s) > 200 {
		return s[len(s)-200:]
	}
	return s
}

func c44Continue(c *kit.Check, s *pkt.Sim, side int, orig, twin *kit.Chain) {
	other := s.Ch[1-side]
	// bring every client of the exported chain up to date on both (same counterparty header for both)
	done := map[string]bool{}
	for _, l := range s.Lanes {
		ep := l.Ep(side)
		if done[ep.ClientID] {
			continue
		}
		done[ep.ClientID] = true
		s.W.Coord.CommitBlock(other.TestChain)
		for _, ch := range []*kit.Chain{orig, twin} {
			th := ch.App.GetIBCKeeper().ClientKeeper.GetClientLatestHeight(ch.GetContext(), ep.ClientID)
			hdr, err := other.IBCClientHeader(other.LatestCommittedHeader, th)
			if err != nil {
				panic(kit.Abort{Msg: err.Error()})
			}
			msg, err := clienttypes.NewMsgUpdateClient(ep.ClientID, hdr, ch.Addr(1).String())
			if err != nil {
				panic(kit.Abort{Msg: err.Error()})
			}
			o := ch.Deliver(ch.Acct(1), msg)
			if !o.OK() {
				c.Inc("continuation_update_failed_" + ch.Name)
				if ch == twin {
					c.Violate("C44|continuation-differs|update-client|client", fmt.Sprintf("imported chain cannot update client %s: %s", ep.ClientID, clip(o.Log)), nil)
				}
			}
		}
	}
	// every in-flight packet: receive / acknowledge / time out on the exported chain and on its twin
	for _, p := range s.Pkts {
		if p.IsTerminal() {
			continue
		}
		signer := 2
		addr := orig.Addr(signer).String()
		switch {
		case p.Dst() == side && !p.Received() && !s.ElapsedOnDst(p) && s.IsOrderedHead(p):
			deliverBoth(c, s, orig, twin, s.BuildRecv(p, 0, addr), signer, "recv", p.L.Name)
		case p.Src == side && p.Received() && p.AckKnown() && s.IsOrderedAckHead(p):
			// the acknowledgement lives on the untouched counterparty
			deliverBoth(c, s, orig, twin, s.BuildAck(p, 0, addr), signer, "ack", p.L.Name)
		case p.Src == side && !p.Received() && s.ElapsedOnDst(p):
			var msg sdk.Msg
			if err := kit.Try(func() { msg = s.BuildTimeout(p, 0, addr, false) }); err == nil {
				deliverBoth(c, s, orig, twin, msg, signer, "timeout", p.L.Name)
			}
		}
	}
	// afterwards the packet-level state (everything but client bookkeeping, which carries block times) must agree again
	diffs := compareStores(orig, twin, []string{"ibc", "transfer", "packetforward"}, func(store string, key []byte) bool {
		return store == "ibc" && bytes.HasPrefix(key, []byte("clients/"))
	})
	seen := map[string]bool{}
	for _, d := range diffs {
		sig := fmt.Sprintf("C44|%s-after-continuation|%s|%s", d.kind, d.store, d.class)
		if seen[sig] {
			continue
		}
		seen[sig] = true
		c.Violate(sig, fmt.Sprintf("after the same relay messages store %s key %q (%s) %s on the imported chain", d.store, d.key, d.class, d.kind), nil)
	}
}
