package lc

import (
	"fmt"

	sdk "github.com/cosmos/cosmos-sdk/types"

	clienttypes "github.com/cosmos/ibc-go/v11/modules/core/02-client/types"
	channeltypes "github.com/cosmos/ibc-go/v11/modules/core/04-channel/types"
	"github.com/cosmos/ibc-go/v11/modules/core/exported"
	ibctesting "github.com/cosmos/ibc-go/v11/testing"

	"verif/harness/kit"
)

// c27Lane drives a complete channel handshake and one packet round trip of the chain with itself over
// connection-localhost using real signed messages. Before each honest step (sentinel proof; the harness itself
// put the proven value into the store with the previous step) a hostile twin of the same message is sent:
// non-sentinel proof, or a claim about a value the store does not hold. Hostile twins must fail and leave no trace.
func c27Lane(c *kit.Check, r *kit.Rng, a *kit.Chain) {
	signer := a.Acct(1 + r.Intn(5))
	addr := signer.SenderAccount.GetAddress().String()
	port := ibctesting.MockPort
	hops := []string{exported.LocalhostConnectionID}
	ph := func() clienttypes.Height { return clienttypes.NewHeight(1, 1+r.Boundary64()%1_000_000) }
	badProof := func() []byte {
		return kit.Pick(r, [][]byte{{0x00}, {0x01, 0x01}, {0x02}, r.Bytes(2 + r.Intn(30))})
	}
	step := func(name string, honest bool, o *kit.Outcome) bool {
		c.Eval(fmt.Sprintf("lane|%s|honest=%v|ok=%v", name, honest, o.OK()))
		if honest {
			if !o.OK() {
				c.Violate("C27|lane-honest-rejected|"+name, fmt.Sprintf("honest localhost %s (sentinel proof, value written by the previous step) was rejected: %s", name, o.Log), nil)
				return false
			}
			c.Inc("lane_honest_accepted")
			return true
		}
		if o.OK() {
			c.Violate("C27|lane-hostile-accepted|"+name, fmt.Sprintf("hostile localhost %s was accepted:%s", name, o.DiffString()), nil)
			return false
		}
		if len(o.Diff) != 0 {
			c.Violate("C27|lane-hostile-wrote|"+name, "rejected hostile "+name+" changed state:"+o.DiffString(), nil)
			return false
		}
		c.Inc("lane_hostile_rejected")
		return true
	}

	// INIT on side 1
	o := a.Deliver(signer, channeltypes.NewMsgChannelOpenInit(port, ibctesting.DefaultChannelVersion, channeltypes.UNORDERED, hops, port, addr))
	if !o.OK() {
		c.Inconcl("localhost ChanOpenInit failed: " + o.Log)
		return
	}
	ch1, err := ibctesting.ParseChannelIDFromEvents(o.Res.Events)
	if err != nil {
		c.Inconcl("no channel id: " + err.Error())
		return
	}
	// TRY on side 2: hostile twins first
	mkTry := func(cpChan, cpVersion string, proof []byte) *channeltypes.MsgChannelOpenTry {
		return channeltypes.NewMsgChannelOpenTry(port, ibctesting.DefaultChannelVersion, channeltypes.UNORDERED, hops, port, cpChan, cpVersion, proof, ph(), addr)
	}
	if !step("ChanOpenTry/bad-proof", false, a.Deliver(signer, mkTry(ch1, ibctesting.DefaultChannelVersion, badProof()))) {
		return
	}
	if !step("ChanOpenTry/absent-channel", false, a.Deliver(signer, mkTry(fmt.Sprintf("channel-%d", 900+r.Intn(50)), ibctesting.DefaultChannelVersion, localhostSentinel))) {
		return
	}
	if !step("ChanOpenTry/other-value", false, a.Deliver(signer, mkTry(ch1, ibctesting.DefaultChannelVersion+"-x", localhostSentinel))) {
		return
	}
	o = a.Deliver(signer, mkTry(ch1, ibctesting.DefaultChannelVersion, localhostSentinel))
	if !step("ChanOpenTry", true, o) {
		return
	}
	ch2, err := ibctesting.ParseChannelIDFromEvents(o.Res.Events)
	if err != nil {
		c.Inconcl("no channel id: " + err.Error())
		return
	}
	// ACK on side 1
	mkAck := func(cpChan, cpVersion string, proof []byte) *channeltypes.MsgChannelOpenAck {
		return channeltypes.NewMsgChannelOpenAck(port, ch1, cpChan, cpVersion, proof, ph(), addr)
	}
	if !step("ChanOpenAck/bad-proof", false, a.Deliver(signer, mkAck(ch2, ibctesting.DefaultChannelVersion, badProof()))) {
		return
	}
	if !step("ChanOpenAck/other-value", false, a.Deliver(signer, mkAck(ch2, ibctesting.DefaultChannelVersion+"-y", localhostSentinel))) {
		return
	}
	if !step("ChanOpenAck/wrong-channel", false, a.Deliver(signer, mkAck(ch1, ibctesting.DefaultChannelVersion, localhostSentinel))) {
		return
	}
	if !step("ChanOpenAck", true, a.Deliver(signer, mkAck(ch2, ibctesting.DefaultChannelVersion, localhostSentinel))) {
		return
	}
	// CONFIRM on side 2
	if !step("ChanOpenConfirm/bad-proof", false, a.Deliver(signer, channeltypes.NewMsgChannelOpenConfirm(port, ch2, badProof(), ph(), addr))) {
		return
	}
	if !step("ChanOpenConfirm", true, a.Deliver(signer, channeltypes.NewMsgChannelOpenConfirm(port, ch2, localhostSentinel, ph(), addr))) {
		return
	}
	// a packet ch1 -> ch2 (keeper-level send by the mock application, as a module would)
	var pkt channeltypes.Packet
	timeoutH := clienttypes.NewHeight(1, uint64(a.App.LastBlockHeight())+10_000)
	data := ibctesting.MockPacketData
	var seq uint64
	so := a.InBlock(func(ctx sdk.Context) error {
		var err error
		seq, err = a.App.GetIBCKeeper().ChannelKeeper.SendPacket(ctx, port, ch1, timeoutH, 0, data)
		return err
	})
	if so.Err != nil {
		c.Inconcl("localhost SendPacket failed: " + so.Err.Error())
		return
	}
	pkt = channeltypes.NewPacket(data, seq, port, ch1, port, ch2, timeoutH, 0)
	// RECV: hostile twins = bad proof, altered data (commitment differs), unsent sequence (commitment absent)
	if !step("RecvPacket/bad-proof", false, a.Deliver(signer, channeltypes.NewMsgRecvPacket(pkt, badProof(), ph(), addr))) {
		return
	}
	alt := pkt
	alt.Data = append([]byte{}, data...)
	alt.Data[r.Intn(len(alt.Data))] ^= 1
	if !step("RecvPacket/other-value", false, a.Deliver(signer, channeltypes.NewMsgRecvPacket(alt, localhostSentinel, ph(), addr))) {
		return
	}
	unsent := pkt
	unsent.Sequence = pkt.Sequence + 1 + uint64(r.Intn(5))
	if !step("RecvPacket/absent-commitment", false, a.Deliver(signer, channeltypes.NewMsgRecvPacket(unsent, localhostSentinel, ph(), addr))) {
		return
	}
	// TIMEOUT claim while the receipt is absent is about non-membership, but the packet has not timed out: not judged here.
	o = a.Deliver(signer, channeltypes.NewMsgRecvPacket(pkt, localhostSentinel, ph(), addr))
	if !step("RecvPacket", true, o) {
		return
	}
	ack, err := ibctesting.ParseAckFromEvents(o.Res.Events)
	if err != nil {
		c.Inconcl("no ack in events: " + err.Error())
		return
	}
	if !step("Acknowledgement/bad-proof", false, a.Deliver(signer, channeltypes.NewMsgAcknowledgement(pkt, ack, badProof(), ph(), addr))) {
		return
	}
	otherAck := append([]byte{}, ack...)
	otherAck[r.Intn(len(otherAck))] ^= 1
	if !step("Acknowledgement/other-value", false, a.Deliver(signer, channeltypes.NewMsgAcknowledgement(pkt, otherAck, localhostSentinel, ph(), addr))) {
		return
	}
	if !step("Acknowledgement", true, a.Deliver(signer, channeltypes.NewMsgAcknowledgement(pkt, ack, localhostSentinel, ph(), addr))) {
		return
	}
	c.Inc("lanes_completed")
}
