package lc

import (
	"bytes"
	"crypto/ecdsa"
	"fmt"
	"math/big"
	"strings"
	"testing"

	"github.com/ethereum/go-ethereum/common"
	"github.com/ethereum/go-ethereum/crypto"

	sdk "github.com/cosmos/cosmos-sdk/types"

	clienttypes "github.com/cosmos/ibc-go/v11/modules/core/02-client/types"
	commitmenttypesv2 "github.com/cosmos/ibc-go/v11/modules/core/23-commitment/types/v2"
	"github.com/cosmos/ibc-go/v11/modules/core/exported"
	"github.com/cosmos/ibc-go/v11/modules/light-clients/attestations"
	ibctesting "github.com/cosmos/ibc-go/v11/testing"

	"verif/harness/kit"
)

const c28Rule = "cases = one attestations client per case on a real chain (MsgCreateClient; 1-12 attestors with seed-derived keys, quorum 1..n, addresses in mixed notations) driven by PRNG histories of MsgUpdateClient / keeper-level " +
	"UpdateClient and ClientKeeper.VerifyMembership/VerifyNonMembership; signature lists are exact-quorum, surplus, below quorum, padded with duplicates, recovery-id twins (0/1 vs 27/28), malleated (r,n-s) twins, unknown signers, " +
	"garbage or wrong-length entries, signed under the other/no/unknown type tag or over other data; payloads with new, old, stored (same / conflicting timestamp) heights, height mismatch, duplicate paths, zero commitments, wrong path hash, " +
	"31/33-byte values; conflicting updates freeze and the frozen client is probed with fully valid input; distinct = (operation, signature-list class, payload class, outcome)"

type attSim struct {
	c     *kit.Check
	r     *kit.Rng
	ch    *kit.Chain
	id    string
	keys  []*ecdsa.PrivateKey // configured attestors
	m     *attModel
	trace []string
}

func (s *attSim) log(f string, a ...any) {
	if len(s.trace) < 200 {
		s.trace = append(s.trace, fmt.Sprintf(f, a...))
	}
}

func (s *attSim) viol(sig, f string, a ...any) {
	tail := s.trace
	if len(tail) > 25 {
		tail = tail[len(tail)-25:]
	}
	s.c.Violate(sig, fmt.Sprintf(f, a...), map[string]any{"trace_tail": tail, "client": s.id, "attestors": len(s.keys), "quorum": s.m.quorum})
}

func detECDSA(r *kit.Rng) *ecdsa.PrivateKey {
	for {
		k, err := crypto.ToECDSA(r.Bytes(32))
		if err == nil {
			return k
		}
	}
}

func ethSign(digest []byte, k *ecdsa.PrivateKey) []byte {
	sig, err := crypto.Sign(digest, k)
	if err != nil {
		panic(kit.Abort{Msg: err.Error()})
	}
	return sig
}

// sigList builds a signature list of the requested class over (tag,data). It returns the list and the class label actually used.
func (s *attSim) sigList(class string, tag byte, data []byte) ([][]byte, string) {
	r := s.r
	q, n := s.m.quorum, len(s.keys)
	d := taggedDigest(tag, data)
	perm := make([]int, n)
	for i := range perm {
		perm[i] = i
	}
	kit.Shuffle(r, perm)
	sign := func(i int) []byte {
		sig := ethSign(d, s.keys[i])
		if r.Bool() {
			sig[64] += 27
		}
		return sig
	}
	distinct := func(k int) [][]byte {
		var out [][]byte
		for _, i := range perm[:k] {
			out = append(out, sign(i))
		}
		return out
	}
	var sigs [][]byte
	switch class {
	case "exact":
		sigs = distinct(q)
	case "surplus":
		sigs = distinct(q + r.Intn(n-q+1))
	case "below":
		if q == 1 {
			return s.sigList("all-unknown", tag, data)
		}
		sigs = distinct(q - 1)
	case "dup", "twin", "malleated":
		// q-1 distinct signers and further entries of one of them: still only q-1 distinct attestors
		if q == 1 {
			return s.sigList("all-unknown", tag, data)
		}
		sigs = distinct(q - 1)
		extra := 1 + r.Intn(3)
		for e := 0; e < extra; e++ {
			src := perm[r.Intn(q-1)]
			raw := ethSign(d, s.keys[src])
			switch class {
			case "dup":
				if r.Bool() {
					raw[64] += 27
				}
			case "twin":
				// same signature under both recovery-id conventions: add the one that is certainly different from a present one
				raw2 := bytes.Clone(raw)
				raw2[64] += 27
				sigs = append(sigs, raw2)
			case "malleated":
				raw = malleate(raw)
				if r.Bool() {
					raw[64] += 27
				}
			}
			sigs = append(sigs, raw)
		}
	case "unknown":
		// q-1 configured signers plus foreign ones
		sigs = distinct(q - 1)
		for e := 0; e < 1+r.Intn(2); e++ {
			sigs = append(sigs, ethSign(d, detECDSA(r)))
		}
	case "all-unknown":
		for e := 0; e < q+r.Intn(2); e++ {
			sigs = append(sigs, ethSign(d, detECDSA(r)))
		}
	case "garbage":
		// q-1 good ones and 65-byte noise / wrong lengths / bad recovery ids
		sigs = distinct(q - 1)
		for e := 0; e < 1+r.Intn(2); e++ {
			switch r.Intn(5) {
			case 0:
				sigs = append(sigs, r.Bytes(65))
			case 1:
				sigs = append(sigs, r.Bytes(64))
			case 2:
				sigs = append(sigs, r.Bytes(66))
			case 3:
				g := sign(perm[n-1])
				g[64] = kit.Pick(r, []byte{2, 3, 26, 29, 255})
				sigs = append(sigs, g)
			case 4:
				sigs = append(sigs, []byte{})
			}
		}
	case "wrong-tag":
		other := kit.Pick(r, []byte{attTagState, attTagPacket, 0x00, 0x03, 0xff})
		if other == tag {
			other ^= 0x03
		}
		d2 := taggedDigest(other, data)
		if r.Chance(1, 4) {
			// no tag at all: plain sha256(data), the pre-domain-separation format
			return s.signPlain(data, q+r.Intn(n-q+1), perm), "no-tag"
		}
		for _, i := range perm[:q+r.Intn(n-q+1)] {
			sigs = append(sigs, ethSign(d2, s.keys[i]))
		}
	case "other-data":
		alt := bytes.Clone(data)
		alt[len(alt)-1-r.Intn(len(alt))] ^= byte(1 << r.Intn(8))
		d2 := taggedDigest(tag, alt)
		for _, i := range perm[:q+r.Intn(n-q+1)] {
			sigs = append(sigs, ethSign(d2, s.keys[i]))
		}
	case "empty":
		sigs = nil
	}
	if r.Bool() {
		kit.Shuffle(r, sigs)
	}
	return sigs, class
}

func (s *attSim) signPlain(data []byte, k int, perm []int) [][]byte {
	// a 32-byte digest of the data that carries no type tag: sha256(data) (the format before domain separation) or keccak256(data)
	h := sha256sum(data)
	if s.r.Bool() {
		h = crypto.Keccak256(data)
	}
	var sigs [][]byte
	for _, i := range perm[:k] {
		sigs = append(sigs, ethSign(h, s.keys[i]))
	}
	return sigs
}

var (
	honestSig  = []string{"exact", "surplus"}
	hostileSig = []string{"below", "dup", "twin", "malleated", "unknown", "all-unknown", "garbage", "wrong-tag", "other-data", "empty"}
)

func (s *attSim) pickSig(honestPct int) string {
	if s.r.Intn(100) < honestPct {
		return kit.Pick(s.r, honestSig)
	}
	return kit.Pick(s.r, hostileSig)
}

func (s *attSim) status() exported.Status {
	return s.ch.Sim.IBCKeeper.ClientKeeper.GetClientStatus(s.ch.GetContext(), s.id)
}

func wellFormed(sigs [][]byte) bool {
	if len(sigs) == 0 {
		return false
	}
	for _, sg := range sigs {
		if len(sg) != 65 {
			return false
		}
	}
	return true
}

// ---------------------------------------------------------------------------------------------
// updates

func (s *attSim) stepUpdate() string {
	r := s.r
	m := s.m
	// payload
	var h, sec uint64
	var pcls string
	stored := make([]uint64, 0, len(m.cons))
	for k := range m.cons {
		stored = append(stored, k)
	}
	sortU64(stored)
	switch k := r.Intn(10); {
	case k < 4:
		h, sec, pcls = m.latest+1+uint64(r.Intn(5)), 1_700_000_000+uint64(r.Intn(1_000_000)), "new-height"
	case k < 5:
		h, sec, pcls = uint64(r.Intn(int(min(m.latest, 1000))+1)), 1_700_000_000+uint64(r.Intn(1_000_000)), "older-height"
		if _, ok := m.cons[h]; ok {
			pcls = "stored-height"
		}
	case k < 7:
		h = kit.Pick(r, stored)
		ns := m.cons[h]
		q, rem := new(big.Int).QuoRem(ns, big.NewInt(1_000_000_000), new(big.Int))
		if rem.Sign() == 0 && q.IsUint64() {
			sec, pcls = q.Uint64(), "stored-same-timestamp"
		} else {
			sec, pcls = q.Uint64(), "stored-height" // the initial consensus state can hold a timestamp that no attestation in seconds can repeat
		}
	default:
		h = kit.Pick(r, stored)
		q := new(big.Int).Quo(m.cons[h], big.NewInt(1_000_000_000))
		base := q.Uint64()
		switch r.Intn(5) {
		case 0:
			sec = base + 1
		case 1:
			sec = base - 1
		case 2:
			sec = base + uint64(1+r.Intn(100000))
		case 3:
			sec = base + 1<<55 // a different timestamp that is congruent to the stored one modulo 2^64 nanoseconds
		case 4:
			sec = r.Boundary64()
		}
		pcls = "stored-height"
	}
	if r.Chance(1, 25) {
		h, pcls = 0, "height-zero"
	}
	prevNs, had := m.cons[h]
	newNs := nsOfSeconds(sec)
	conflict := had && prevNs.Cmp(newNs) != 0
	if pcls == "stored-height" {
		if conflict {
			pcls = "conflicting-timestamp"
		} else {
			pcls = "stored-same-timestamp"
		}
	}
	data := encodeState(h, sec)
	honestPct := 45
	if conflict {
		honestPct = 25 // most conflicting updates are hostile, so that histories go on
	}
	scls := s.pickSig(honestPct)
	if scls == "wrong-tag" && r.Chance(1, 2) {
		// state-vs-packet swap: the attestors signed this blob as a *packet* attestation
		scls = "swap-packet-tag"
	}
	var sigs [][]byte
	if scls == "swap-packet-tag" {
		sigs, _ = s.sigList("surplus", attTagPacket, data)
	} else {
		sigs, scls = s.sigList(scls, attTagState, data)
	}
	proof := &attestations.AttestationProof{AttestationData: data, Signatures: sigs}
	viaMsg := wellFormed(sigs) && r.Chance(3, 4)
	var o *kit.Outcome
	if viaMsg {
		signer := s.ch.Acct(1 + r.Intn(5))
		msg, err := clienttypes.NewMsgUpdateClient(s.id, proof, signer.SenderAccount.GetAddress().String())
		if err != nil {
			panic(kit.Abort{Msg: err.Error()})
		}
		o = s.ch.Deliver(signer, msg)
	} else {
		o = s.ch.InBlock(func(ctx sdk.Context) error {
			return s.ch.Sim.IBCKeeper.ClientKeeper.UpdateClient(ctx, s.id, proof)
		})
	}
	ok := o.OK()
	valid := m.validSigners(attTagState, data, sigs)
	s.log("update h=%d sec=%d payload=%s sigs=%s(%d entries, %d valid distinct, quorum %d) msg=%v ok=%v", h, sec, pcls, scls, len(sigs), valid, m.quorum, viaMsg, ok)
	cls := fmt.Sprintf("update|%s|%s|frozen=%v|ok=%v", scls, pcls, m.frozen, ok)
	s.c.Eval(cls)
	s.c.Inc("updates")
	if !ok {
		s.c.Inc("update_rejected")
		s.c.Inc("rejected_sig_" + scls)
		if len(o.Diff) != 0 {
			s.viol("C28|rejected-update-wrote", "rejected update changed state:%s", o.DiffString())
			return cls + "!"
		}
		return cls
	}
	// accepted
	if m.frozen {
		s.viol("C28|frozen-accepted|update", "frozen client accepted an update (h=%d)", h)
		return cls + "!"
	}
	if valid < m.quorum {
		s.viol("C28|update-accepted-without-quorum|"+scls, "update accepted with %d valid distinct configured signers over the state-tagged data, quorum is %d (%d signature entries, class %s)", valid, m.quorum, len(sigs), scls)
		return cls + "!"
	}
	s.c.Inc("update_accepted")
	st := s.status()
	if conflict {
		if st != exported.Frozen {
			if !newNs.IsUint64() {
				// seconds*1e9 does not fit 64 bits: a distinct, precisely classified input class (the history goes on, the client stays active)
				s.viol("C28|conflicting-timestamp-not-frozen|seconds-times-1e9-exceeds-uint64", "update attesting %d s (= %s ns, beyond 2^64) at stored height %d (stored %s ns) was accepted and the client is %s, not frozen", sec, newNs, h, prevNs, st)
				s.c.Inc("conflict_not_frozen_ns_overflow")
				return cls
			}
			s.viol("C28|conflicting-timestamp-not-frozen", "update attesting %d s at stored height %d (stored %s ns) was accepted and the client is %s", sec, h, prevNs, st)
			return cls + "!"
		}
		m.frozen = true
		s.c.Inc("freezes")
		return cls
	}
	if st != exported.Active {
		s.viol("C28|non-conflicting-update-froze", "update h=%d sec=%d without a conflicting stored timestamp left the client %s", h, sec, st)
		return cls + "!"
	}
	m.cons[h] = newNs
	if h > m.latest {
		m.latest = h
	}
	return cls
}

// ---------------------------------------------------------------------------------------------
// membership / non-membership

type attCall struct {
	member  bool
	height  clienttypes.Height
	path    commitmenttypesv2.MerklePath
	value   []byte
	proof   []byte
	sigs    [][]byte
	data    []byte
	attH    uint64
	packets []attPacket
	key     []byte
	scls    string
	pcls    string
	err     error
}

func (s *attSim) mkCall() *attCall {
	r := s.r
	m := s.m
	cl := &attCall{member: r.Bool()}
	stored := make([]uint64, 0, len(m.cons))
	for k := range m.cons {
		stored = append(stored, k)
	}
	sortU64(stored)
	H := kit.Pick(r, stored)
	cl.attH = H
	cl.key = append([]byte("commitments/ports/transfer/channels/channel-0/sequences/"), r.Bytes(1+r.Intn(8))...)
	pathHash := common.BytesToHash(crypto.Keccak256(cl.key))
	var value [32]byte
	copy(value[:], r.Bytes(32))
	zero := [32]byte{}
	cl.value = value[:]
	var labels []string
	// decoys
	for d := r.Intn(3); d > 0; d-- {
		var p attPacket
		copy(p.Path[:], r.Bytes(32))
		copy(p.Commitment[:], r.Bytes(32))
		cl.packets = append(cl.packets, p)
	}
	target := attPacket{Path: pathHash, Commitment: value}
	if !cl.member {
		target.Commitment = zero
	}
	pl := "honest"
	if r.Chance(1, 2) {
		pl = kit.Pick(r, []string{"other-commitment", "other-path", "wrong-hash", "raw-path", "no-target", "dup-path-zero-and-value", "zero-commitment", "height-mismatch", "unstored-height", "revision", "short-value", "long-value", "empty-value", "no-packets", "two-element-path"})
	}
	switch pl {
	case "other-commitment":
		copy(target.Commitment[:], r.Bytes(32)) // for non-membership: the path is attested with a non-zero commitment
	case "other-path":
		target.Path = common.BytesToHash(crypto.Keccak256(append(bytes.Clone(cl.key), 1)))
	case "wrong-hash":
		target.Path = common.BytesToHash(sha256sum(cl.key))
	case "raw-path":
		target.Path = common.BytesToHash(cl.key)
	case "no-target", "no-packets":
	case "dup-path-zero-and-value":
		// the path is attested twice, once with a zero and once with a real commitment
		cl.packets = append(cl.packets, attPacket{Path: pathHash, Commitment: zero})
		target.Commitment = value
	case "zero-commitment":
		target.Commitment = zero
		if cl.member && r.Bool() {
			cl.value = zero[:] // membership of an all-zero value
		}
	case "short-value":
		// the attested 32-byte commitment is the short value padded with zeros
		cl.value = bytes.Clone(value[:31])
		value[31] = 0
		if cl.member {
			target.Commitment = value
		}
	case "long-value":
		cl.value = append(bytes.Clone(value[:]), 0)
	case "empty-value":
		cl.value = nil
		if cl.member {
			target.Commitment = zero
		}
	}
	if pl != "no-target" && pl != "no-packets" {
		cl.packets = append(cl.packets, target)
	}
	if pl == "no-packets" {
		cl.packets = nil
	}
	kit.Shuffle(r, cl.packets)
	cl.height = clienttypes.NewHeight(0, H)
	switch pl {
	case "height-mismatch":
		cl.attH = H + 1 + uint64(r.Intn(3))
		if r.Bool() && len(stored) > 1 {
			for cl.attH = kit.Pick(r, stored); cl.attH == H; cl.attH = kit.Pick(r, stored) {
			}
		}
	case "unstored-height":
		H2 := m.latest + 5 + uint64(r.Intn(10))
		cl.height, cl.attH = clienttypes.NewHeight(0, H2), H2
	case "revision":
		cl.height = clienttypes.NewHeight(1+uint64(r.Intn(3)), H)
	}
	labels = append(labels, pl)
	cl.pcls = strings.Join(labels, "+")
	cl.data = encodePackets(cl.attH, cl.packets)
	scls := s.pickSig(60)
	if scls == "wrong-tag" && r.Chance(1, 2) {
		scls = "swap-state-tag"
	}
	if scls == "swap-state-tag" {
		cl.sigs, _ = s.sigList("surplus", attTagState, cl.data)
		cl.scls = scls
	} else {
		cl.sigs, cl.scls = s.sigList(scls, attTagPacket, cl.data)
	}
	if r.Chance(1, 30) {
		// a state attestation blob properly signed as a state attestation, presented as a packet proof
		cl.data = encodeState(H, 1_700_000_000)
		cl.sigs, _ = s.sigList("surplus", attTagState, cl.data)
		cl.scls, cl.pcls, cl.packets = "swap-state-tag", "state-blob", nil
	}
	bz, err := s.ch.Codec.Marshal(&attestations.AttestationProof{AttestationData: cl.data, Signatures: cl.sigs})
	if err != nil {
		panic(kit.Abort{Msg: err.Error()})
	}
	cl.proof = bz
	cl.path = commitmenttypesv2.MerklePath{KeyPath: [][]byte{cl.key}}
	if pl == "two-element-path" {
		cl.path = commitmenttypesv2.MerklePath{KeyPath: [][]byte{[]byte("ibc"), cl.key}}
	}
	return cl
}

// attested reports what the reference model derives from the packets the harness encoded: is (keccak(key), value) attested,
// is the path attested at all, and are all its commitments zero.
func (cl *attCall) attested() (pair, pathSeen, allZero bool) {
	ph := crypto.Keccak256(cl.key)
	allZero = true
	for _, p := range cl.packets {
		if bytes.Equal(p.Path[:], ph) {
			pathSeen = true
			if p.Commitment != ([32]byte{}) {
				allZero = false
			}
			if len(cl.value) == 32 && bytes.Equal(p.Commitment[:], cl.value) {
				pair = true
			}
		}
	}
	return
}

func (s *attSim) stepVerify() (string, bool) {
	ck := s.ch.Sim.IBCKeeper.ClientKeeper
	ncalls := 3 + s.r.Intn(5)
	calls := make([]*attCall, ncalls)
	for i := range calls {
		calls[i] = s.mkCall()
	}
	pre := s.status()
	o := s.ch.InBlock(func(ctx sdk.Context) error {
		for _, cl := range calls {
			cl.err = kit.TryAll(func() {
				var err error
				if cl.member {
					err = ck.VerifyMembership(ctx, s.id, cl.height, 0, 0, cl.proof, cl.path, cl.value)
				} else {
					err = ck.VerifyNonMembership(ctx, s.id, cl.height, 0, 0, cl.proof, cl.path)
				}
				if err != nil {
					panic(err)
				}
			})
		}
		return nil
	})
	if len(o.Diff) != 0 {
		s.viol("C28|verification-wrote", "a block of membership verifications changed state:%s", o.DiffString())
		return "verify!", false
	}
	if s.status() != pre {
		s.viol("C28|verification-changed-status", "client status changed %s -> %s by verifications", pre, s.status())
		return "verify!", false
	}
	var all []string
	good := true
	for _, cl := range calls {
		kind := "nonmember"
		if cl.member {
			kind = "member"
		}
		ok := cl.err == nil
		cls := fmt.Sprintf("%s|%s|%s|frozen=%v|ok=%v", kind, cl.scls, cl.pcls, s.m.frozen, ok)
		all = append(all, cls)
		s.c.Eval(cls)
		s.c.Inc("verifications")
		valid := s.m.validSigners(attTagPacket, cl.data, cl.sigs)
		s.log("%s h=%s attH=%d payload=%s sigs=%s(%d entries, %d valid distinct, quorum %d) ok=%v", kind, cl.height, cl.attH, cl.pcls, cl.scls, len(cl.sigs), valid, s.m.quorum, ok)
		if !ok {
			s.c.Inc("verify_rejected")
			s.c.Inc("rejected_sig_" + cl.scls)
			s.c.Inc("rejected_payload_" + cl.pcls)
			continue
		}
		wit := func(sig, f string, a ...any) {
			s.viol(sig, f, a...)
			good = false
		}
		switch {
		case s.m.frozen:
			wit("C28|frozen-accepted|"+kind, "frozen client accepted a %s proof", kind)
			continue
		case valid < s.m.quorum:
			wit("C28|"+kind+"-accepted-without-quorum|"+cl.scls, "%s proof accepted with %d valid distinct configured signers over the packet-tagged data, quorum is %d (%d entries, class %s)", kind, valid, s.m.quorum, len(cl.sigs), cl.scls)
			continue
		case cl.attH != cl.height.GetRevisionHeight():
			wit("C28|"+kind+"-accepted-at-other-height", "%s proof attesting height %d accepted for height %s", kind, cl.attH, cl.height)
			continue
		}
		pair, seen, allZero := cl.attested()
		if cl.member {
			if !pair {
				wit("C28|member-accepted-without-attested-pair|"+cl.pcls, "membership of a %d-byte value accepted but no attested (keccak(path), 32-byte commitment) pair matches (payload %s)", len(cl.value), cl.pcls)
				continue
			}
			s.c.Inc("membership_accepted")
		} else {
			if !seen || !allZero {
				wit("C28|nonmember-accepted-without-zero-attestation|"+cl.pcls, "non-membership accepted: path attested=%v, all commitments zero=%v (payload %s)", seen, allZero, cl.pcls)
				continue
			}
			s.c.Inc("nonmembership_accepted")
		}
	}
	return fmt.Sprint(all), good
}

// ---------------------------------------------------------------------------------------------

func TestC28(t *testing.T) {
	c := kit.NewCheck(t, "C28", "exploration", c28Rule)
	defer c.Finish()
	c.Assume("go-ethereum secp256k1 recovery, sha256 and keccak256 are the trusted base of the reference model; a signature counts as valid for the model under either recovery-id convention and with high or low s")
	c.Assume("acceptance-direction oracle: rejections of input the model would accept are legitimate and only counted")
	for k, v := range map[string]int64{
		"updates": 120, "update_accepted": 40, "update_rejected": 80, "verifications": 800, "membership_accepted": 110, "nonmembership_accepted": 110,
		"verify_rejected": 550, "freezes": 12, "frozen_probes": 90,
		"rejected_sig_dup": 30, "rejected_sig_twin": 30, "rejected_sig_malleated": 30, "rejected_sig_unknown": 30, "rejected_sig_below": 30, "rejected_sig_wrong-tag": 10,
		"rejected_sig_swap-state-tag": 40, "rejected_sig_swap-packet-tag": 3, "rejected_sig_garbage": 30, "rejected_payload_dup-path-zero-and-value": 25, "rejected_payload_height-mismatch": 25,
	} {
		c.Floor(k, v)
	}

	w := kit.NewWorld(t, 1)
	ch := w.Chains[0]
	// harness self-check: the independent ABI encoders agree with the wire format the client decodes
	{
		sa := attestations.StateAttestation{Height: 77, Timestamp: 123 * 1_000_000_000}
		want, err := sa.ABIEncode()
		pa := attestations.PacketAttestation{Height: 9, Packets: []attestations.PacketCompact{{Path: bytes.Repeat([]byte{1}, 32), Commitment: bytes.Repeat([]byte{2}, 32)}}}
		want2, err2 := pa.ABIEncode()
		var p attPacket
		copy(p.Path[:], bytes.Repeat([]byte{1}, 32))
		copy(p.Commitment[:], bytes.Repeat([]byte{2}, 32))
		if err != nil || err2 != nil || !bytes.Equal(want, encodeState(77, 123)) || !bytes.Equal(want2, encodePackets(9, []attPacket{p})) {
			c.Inconcl("harness ABI encoders disagree with the client's wire format")
			return
		}
	}
	n := c.N(60, 350)
	for i := 0; i < n; i++ {
		if c.SkipCase(i) {
			continue
		}
		r := c.CaseRng(i)
		c.Inc("cases")
		var classes []string
		err := kit.Try(func() {
			nAtt := 1 + r.Intn(12)
			q := 1 + r.Intn(nAtt)
			if r.Chance(1, 4) {
				q = kit.Pick(r, []int{1, nAtt, (nAtt + 1) / 2, nAtt*2/3 + 1})
				q = max(1, min(q, nAtt))
			}
			s := &attSim{c: c, r: r, ch: ch, m: &attModel{attestors: map[common.Address]bool{}, quorum: q, cons: map[uint64]*big.Int{}}}
			var addrs []string
			for k := 0; k < nAtt; k++ {
				key := detECDSA(r)
				s.keys = append(s.keys, key)
				a := addrOf(key)
				s.m.attestors[a] = true
				switch r.Intn(4) {
				case 0:
					addrs = append(addrs, a.Hex())
				case 1:
					addrs = append(addrs, strings.ToLower(a.Hex()))
				case 2:
					addrs = append(addrs, strings.ToLower(a.Hex())[2:])
				default:
					addrs = append(addrs, "0X"+strings.ToUpper(a.Hex()[2:]))
				}
			}
			h0 := 1 + uint64(r.Intn(1000))
			ts0 := kit.Pick(r, []uint64{1_700_000_000_000_000_000, 1_700_000_000_000_000_000 + uint64(r.Intn(1_000_000_000)), 1 + uint64(r.Intn(1000))})
			signer := ch.Acct(1 + r.Intn(5))
			msg, err := clienttypes.NewMsgCreateClient(attestations.NewClientState(addrs, uint32(q), h0), &attestations.ConsensusState{Timestamp: ts0}, signer.SenderAccount.GetAddress().String())
			if err != nil {
				panic(kit.Abort{Msg: err.Error()})
			}
			o := ch.Deliver(signer, msg)
			if !o.OK() {
				panic(kit.Abort{Msg: "create attestations client: " + o.Log})
			}
			s.id, err = ibctesting.ParseClientIDFromEvents(o.Res.Events)
			if err != nil {
				panic(kit.Abort{Msg: err.Error()})
			}
			s.m.cons[h0], s.m.latest = new(big.Int).SetUint64(ts0), h0
			nsteps := 14 + r.Intn(12)
			frozenAt := -1
			for j := 0; j < nsteps; j++ {
				var cls string
				good := true
				if r.Chance(2, 5) {
					cls = s.stepUpdate()
					good = !strings.HasSuffix(cls, "!")
				} else {
					cls, good = s.stepVerify()
				}
				classes = append(classes, cls)
				if !good {
					return
				}
				if s.m.frozen && frozenAt < 0 {
					frozenAt = j
					// probe the frozen client with fully valid input only
					if !s.frozenProbes() {
						return
					}
					if nsteps > j+4 {
						nsteps = j + 4
					}
				}
			}
			if i < 2 {
				c.Sample(map[string]any{"case": c.CaseID(i), "attestors": nAtt, "quorum": q, "trace": s.trace[:min(len(s.trace), 16)]})
			}
		})
		if err != nil {
			c.Inconcl(err.Error())
			continue
		}
		c.Eval(fmt.Sprint(classes))
	}
}

// frozenProbes sends fully valid updates and proofs to a frozen client.
func (s *attSim) frozenProbes() bool {
	r := s.r
	m := s.m
	ck := s.ch.Sim.IBCKeeper.ClientKeeper
	for p := 0; p < 8; p++ {
		stored := make([]uint64, 0, len(m.cons))
		for k := range m.cons {
			stored = append(stored, k)
		}
		sortU64(stored)
		H := kit.Pick(r, stored)
		var o *kit.Outcome
		var what string
		switch p % 3 {
		case 0:
			what = "update"
			data := encodeState(m.latest+1+uint64(r.Intn(3)), 1_800_000_000)
			sigs, _ := s.sigList("surplus", attTagState, data)
			signer := s.ch.Acct(1)
			msg, err := clienttypes.NewMsgUpdateClient(s.id, &attestations.AttestationProof{AttestationData: data, Signatures: sigs}, signer.SenderAccount.GetAddress().String())
			if err != nil {
				panic(kit.Abort{Msg: err.Error()})
			}
			o = s.ch.Deliver(signer, msg)
		default:
			member := p%3 == 1
			what = "nonmember"
			key := append([]byte("k/"), r.Bytes(6)...)
			pk := attPacket{Path: common.BytesToHash(crypto.Keccak256(key))}
			var val []byte
			if member {
				what = "member"
				copy(pk.Commitment[:], r.Bytes(32))
				val = pk.Commitment[:]
			}
			data := encodePackets(H, []attPacket{pk})
			sigs, _ := s.sigList("surplus", attTagPacket, data)
			proof := s.ch.Codec.MustMarshal(&attestations.AttestationProof{AttestationData: data, Signatures: sigs})
			path := commitmenttypesv2.MerklePath{KeyPath: [][]byte{key}}
			o = s.ch.InBlock(func(ctx sdk.Context) error {
				if member {
					return ck.VerifyMembership(ctx, s.id, clienttypes.NewHeight(0, H), 0, 0, proof, path, val)
				}
				return ck.VerifyNonMembership(ctx, s.id, clienttypes.NewHeight(0, H), 0, 0, proof, path)
			})
		}
		s.c.Eval("frozen-probe|" + what + fmt.Sprintf("|ok=%v", o.OK()))
		s.log("frozen probe %s ok=%v", what, o.OK())
		if o.OK() {
			s.viol("C28|frozen-accepted|"+what, "frozen client accepted a fully valid %s", what)
			return false
		}
		if len(o.Diff) != 0 {
			s.viol("C28|frozen-rejected-but-wrote|"+what, "frozen client rejected %s but state changed:%s", what, o.DiffString())
			return false
		}
		s.c.Inc("frozen_probes")
	}
	if st := s.status(); st != exported.Frozen {
		s.viol("C28|unfrozen", "frozen client became %s", st)
		return false
	}
	return true
}
