package lc

import (
	"bytes"
	"fmt"
	"testing"

	codectypes "github.com/cosmos/cosmos-sdk/codec/types"
	kmultisig "github.com/cosmos/cosmos-sdk/crypto/keys/multisig"
	"github.com/cosmos/cosmos-sdk/crypto/keys/secp256k1"
	cryptotypes "github.com/cosmos/cosmos-sdk/crypto/types"
	"github.com/cosmos/cosmos-sdk/crypto/types/multisig"
	sdk "github.com/cosmos/cosmos-sdk/types"
	"github.com/cosmos/cosmos-sdk/types/tx/signing"

	transfertypes "github.com/cosmos/ibc-go/v11/modules/apps/transfer/types"
	clienttypes "github.com/cosmos/ibc-go/v11/modules/core/02-client/types"
	connectiontypes "github.com/cosmos/ibc-go/v11/modules/core/03-connection/types"
	channeltypes "github.com/cosmos/ibc-go/v11/modules/core/04-channel/types"
	commitmenttypes "github.com/cosmos/ibc-go/v11/modules/core/23-commitment/types"
	commitmenttypesv2 "github.com/cosmos/ibc-go/v11/modules/core/23-commitment/types/v2"
	host "github.com/cosmos/ibc-go/v11/modules/core/24-host"
	"github.com/cosmos/ibc-go/v11/modules/core/exported"
	solomachine "github.com/cosmos/ibc-go/v11/modules/light-clients/06-solomachine"
	ibctesting "github.com/cosmos/ibc-go/v11/testing"

	"verif/harness/kit"
)

const c26Rule = "cases = PRNG histories on one solo machine client (ibctesting.Solomachine signer with 1 key or a k-of-n multisig, keys derived from the seed) of a real chain: header updates (MsgUpdateClient; key/diversifier kept or rotated, " +
	"timestamp equal or larger), membership and non-membership verifications (ClientKeeper in a block context, and real connection/channel handshake, transfer, recv, ack and timeout messages), each preceded by hostile twins whose signed " +
	"(sequence, timestamp, diversifier, path, data) differ from what is presented, signed by a foreign key or too few multisig members, or properly signed for an earlier timestamp; after every accepted step all earlier " +
	"accepted proofs and headers are replayed; a third of the histories end with valid and invalid misbehaviour and probes of the frozen client; distinct = sequence of (operation kind, hostile label, outcome)"

const (
	soloCpClient = "client-on-solomachine"
	soloCpConn   = "connection-on-solomachine"
	soloCpChan   = "channel-on-solomachine"
)

type soloHist struct {
	kind   string // header | member | nonmember
	header *solomachine.Header
	proof  []byte
	key    []byte
	value  []byte
}

type soloSim struct {
	c    *kit.Check
	r    *kit.Rng
	ch   *kit.Chain
	solo *ibctesting.Solomachine
	id   string
	thr  int // multisig threshold
	// model = what the harness knows to have been accepted
	seq    uint64
	ts     uint64
	div    string
	frozen bool
	hist   []soloHist
	trace  []string
	cls    []string // abstract class of the history: (operation, hostile label | outcome)
	// flow state
	connID, chanID string
	flowStep       int
	flowDead       bool
	pending        []channeltypes.Packet // packets sent by the chain and not yet acked / timed out
	recvSeq        uint64
}

func detKey(r *kit.Rng) cryptotypes.PrivKey { return secp256k1.GenPrivKeyFromSecret(r.Bytes(32)) }

func detKeys(r *kit.Rng, n, thr int) ([]cryptotypes.PrivKey, []cryptotypes.PubKey, cryptotypes.PubKey) {
	privs := make([]cryptotypes.PrivKey, n)
	pubs := make([]cryptotypes.PubKey, n)
	for i := range privs {
		privs[i] = detKey(r)
		pubs[i] = privs[i].PubKey()
	}
	if n == 1 {
		return privs, pubs, pubs[0]
	}
	return privs, pubs, kmultisig.NewLegacyAminoPubKey(thr, pubs)
}

// signSubset signs with the listed members only (multisig) or with an arbitrary single key.
func (s *soloSim) signSubset(privs []cryptotypes.PrivKey, idx []int, bz []byte) []byte {
	var sigData signing.SignatureData
	if len(privs) == 1 {
		sig, _ := privs[0].Sign(bz)
		sigData = &signing.SingleSignatureData{Signature: sig}
	} else {
		ms := multisig.NewMultisig(len(privs))
		for _, i := range idx {
			sig, _ := privs[i].Sign(bz)
			multisig.AddSignature(ms, &signing.SingleSignatureData{Signature: sig}, i)
		}
		sigData = ms
	}
	out, err := s.ch.Codec.Marshal(signing.SignatureDataToProto(sigData))
	if err != nil {
		panic(kit.Abort{Msg: err.Error()})
	}
	return out
}

func (s *soloSim) log(f string, a ...any) {
	if len(s.trace) < 300 {
		s.trace = append(s.trace, fmt.Sprintf(f, a...))
	}
}

func (s *soloSim) viol(sig, f string, a ...any) {
	tail := s.trace
	if len(tail) > 30 {
		tail = tail[len(tail)-30:]
	}
	s.c.Violate(sig, fmt.Sprintf(f, a...), map[string]any{"trace_tail": tail, "client": s.id})
}

type soloState struct {
	seq, ts uint64
	div     string
	frozen  bool
	pk      []byte
}

func (s *soloSim) read() soloState {
	cs, ok := s.ch.Sim.IBCKeeper.ClientKeeper.GetClientState(s.ch.GetContext(), s.id)
	if !ok {
		panic(kit.Abort{Msg: "solo machine client state missing"})
	}
	sm := cs.(*solomachine.ClientState)
	return soloState{sm.Sequence, sm.ConsensusState.Timestamp, sm.ConsensusState.Diversifier, sm.IsFrozen, sm.ConsensusState.PublicKey.Value}
}

func (s *soloSim) signBytes(seq, ts uint64, div string, path, data []byte) []byte {
	bz, err := s.ch.Codec.Marshal(&solomachine.SignBytes{Sequence: seq, Timestamp: ts, Diversifier: div, Path: path, Data: data})
	if err != nil {
		panic(kit.Abort{Msg: err.Error()})
	}
	return bz
}

func (s *soloSim) proofOf(sig []byte, ts uint64) []byte {
	bz, err := s.ch.Codec.Marshal(&solomachine.TimestampedSignatureData{SignatureData: sig, Timestamp: ts})
	if err != nil {
		panic(kit.Abort{Msg: err.Error()})
	}
	return bz
}

func merklePathOf(key []byte) commitmenttypesv2.MerklePath {
	return commitmenttypesv2.MerklePath{KeyPath: [][]byte{[]byte("ibc"), key}}
}

// verifyIn runs one keeper-level verification inside ctx.
func (s *soloSim) verifyIn(ctx sdk.Context, member bool, proof, key, value []byte) error {
	ck := s.ch.Sim.IBCKeeper.ClientKeeper
	h := clienttypes.NewHeight(0, s.seq)
	return kit.TryAll(func() {
		var err error
		if member {
			err = ck.VerifyMembership(ctx, s.id, h, 0, 0, proof, merklePathOf(key), value)
		} else {
			err = ck.VerifyNonMembership(ctx, s.id, h, 0, 0, proof, merklePathOf(key))
		}
		if err != nil {
			panic(err)
		}
	})
}

// nextTs picks a timestamp that does not decrease: equal to the consensus timestamp or larger.
func (s *soloSim) nextTs() uint64 {
	switch s.r.Intn(4) {
	case 0:
		return s.ts
	case 1:
		return s.ts + 1
	default:
		return s.ts + 1 + uint64(s.r.Intn(1000))
	}
}

// judgeAccepted checks the post-state of an operation that succeeded after nproofs verifications, the last one signed with timestamp ts.
func (s *soloSim) judgeAccepted(op string, pre soloState, nproofs uint64, ts uint64) bool {
	post := s.read()
	if post.seq != pre.seq+nproofs {
		s.viol("C26|accepted-without-sequence-bump|"+op, "%s succeeded (%d verification(s)) but the client sequence went %d -> %d", op, nproofs, pre.seq, post.seq)
		return false
	}
	if post.ts < pre.ts {
		s.viol("C26|timestamp-decreased|"+op, "%s succeeded and the consensus timestamp went %d -> %d", op, pre.ts, post.ts)
		return false
	}
	if post.ts != ts {
		s.viol("C26|timestamp-not-the-signed-one|"+op, "%s succeeded with signed timestamp %d but the consensus timestamp is %d", op, ts, post.ts)
		return false
	}
	s.seq, s.ts = post.seq, post.ts
	s.solo.Sequence, s.solo.Time = s.seq, s.ts
	s.c.Inc("sequence_bumps_checked")
	s.c.Eval(fmt.Sprintf("%s|honest|keys=%d|sameTs=%v|accepted", op, min(len(s.solo.PrivateKeys), 2), post.ts == pre.ts))
	return true
}

// judgeRejected checks that a refused operation left no trace.
func (s *soloSim) judgeRejected(op string, pre soloState, o *kit.Outcome) bool {
	post := s.read()
	if post.seq != pre.seq || post.ts != pre.ts || post.div != pre.div || post.frozen != pre.frozen || !bytes.Equal(post.pk, pre.pk) {
		s.viol("C26|rejected-but-client-changed|"+op, "%s was rejected but the client state changed: %+v -> %+v", op, pre, post)
		return false
	}
	if len(o.Diff) != 0 {
		s.viol("C26|rejected-but-wrote|"+op, "%s was rejected but state changed:%s", op, o.DiffString())
		return false
	}
	return true
}

// hostile runs one operation that must be refused.
func (s *soloSim) hostile(op, label string, run func() *kit.Outcome) bool {
	pre := s.read()
	o := run()
	s.log("%s hostile=%s ok=%v", op, label, o.OK())
	s.cls = append(s.cls, op+"/"+label)
	s.c.Inc("hostile_ops")
	if o.OK() {
		post := s.read()
		sig := fmt.Sprintf("C26|accepted|%s|%s", op, label)
		if label == "earlier-timestamp" && post.ts < pre.ts {
			sig = fmt.Sprintf("C26|timestamp-decreased|%s", op)
		}
		s.viol(sig, "%s with %s was accepted (client %+v -> %+v)", op, label, pre, post)
		s.seq, s.ts, s.div, s.frozen = post.seq, post.ts, post.div, post.frozen
		return false
	}
	if !s.judgeRejected(op+"/"+label, pre, o) {
		return false
	}
	s.c.Inc("hostile_rejected")
	s.c.Inc("hostile_rejected_" + label)
	s.c.Eval(fmt.Sprintf("%s|%s|keys=%d|rejected", op, label, min(len(s.solo.PrivateKeys), 2)))
	return true
}

// ---------------------------------------------------------------------------------------------
// keeper-level membership / non-membership

func (s *soloSim) stepVerify(member bool) string {
	op := "nonmember"
	if member {
		op = "member"
	}
	r := s.r
	key := append([]byte(kit.Pick(r, []string{"connections/", "channelEnds/ports/transfer/channels/", "commitments/ports/p/channels/c/sequences/", "x"})), r.Bytes(1+r.Intn(8))...)
	var value []byte
	if member {
		value = r.Bytes(1 + r.Intn(48))
	}
	privs := s.solo.PrivateKeys
	all := make([]int, len(privs))
	for i := range all {
		all[i] = i
	}
	// hostile twins
	nh := r.Intn(3)
	for h := 0; h < nh; h++ {
		ts := s.nextTs()
		sSeq, sTs, sDiv, sKey, sVal := s.seq, ts, s.div, key, value // what gets signed
		pTs, pKey, pVal := ts, key, value                           // what gets presented
		signer, idx := privs, all
		labels := []string{"sequence", "timestamp", "diversifier", "path", "data", "foreign-key", "earlier-timestamp", "kind-swap"}
		if len(privs) > 1 {
			labels = append(labels, "below-threshold")
		}
		label := kit.Pick(r, labels)
		switch label {
		case "sequence":
			sSeq = kit.Pick(r, []uint64{s.seq - 1, s.seq + 1, s.seq + 2, 0, r.U64()})
		case "timestamp":
			pTs = ts + 1 + uint64(r.Intn(5))
		case "diversifier":
			sDiv = kit.Pick(r, []string{s.div + "x", "", "other", s.div + " "})
			if sDiv == s.div {
				sDiv += "y"
			}
		case "path":
			pKey = append(bytes.Clone(key), byte(r.Intn(256)))
			if r.Bool() {
				pKey = bytes.Clone(key)
				pKey[r.Intn(len(pKey))] ^= 1
			}
		case "data":
			if member {
				pVal = bytes.Clone(value)
				pVal[r.Intn(len(pVal))] ^= 1
			} else {
				sVal = r.Bytes(1 + r.Intn(8)) // signed over some data, presented as absence
			}
		case "kind-swap":
			// a signature over absence presented as a membership proof of a value, and vice versa
			if member {
				sVal = nil
			} else {
				sVal = r.Bytes(1 + r.Intn(8))
			}
		case "foreign-key":
			signer, _, _ = detKeys(r, len(privs), s.thr)
		case "below-threshold":
			idx = append([]int{}, all...)
			kit.Shuffle(r, idx)
			idx = idx[:s.thr-1]
		case "earlier-timestamp":
			if s.ts == 0 {
				continue
			}
			d := uint64(1 + r.Intn(3))
			if d > s.ts {
				d = s.ts
			}
			sTs, pTs = s.ts-d, s.ts-d
		}
		proof := s.proofOf(s.signSubset(signer, idx, s.signBytes(sSeq, sTs, sDiv, sKey, sVal)), pTs)
		if !s.hostile(op, label, func() *kit.Outcome {
			return s.ch.InBlock(func(ctx sdk.Context) error { return s.verifyIn(ctx, member, proof, pKey, pVal) })
		}) {
			return op + "!" + label
		}
	}
	// honest
	ts := s.nextTs()
	proof := s.proofOf(s.solo.GenerateSignature(s.signBytes(s.seq, ts, s.div, key, value)), ts)
	pre := s.read()
	o := s.ch.InBlock(func(ctx sdk.Context) error { return s.verifyIn(ctx, member, proof, key, value) })
	s.log("%s honest seq=%d ts=%d ok=%v", op, s.seq, ts, o.OK())
	if !o.OK() {
		s.c.Inc("honest_rejected")
		s.log("honest %s rejected: %s", op, o.Log)
		return op + "?rejected"
	}
	s.c.Inc("accepted_" + op)
	if !s.judgeAccepted(op, pre, 1, ts) {
		return op + "!bump"
	}
	s.hist = append(s.hist, soloHist{kind: op, proof: proof, key: key, value: value})
	return op
}

// ---------------------------------------------------------------------------------------------
// header updates through MsgUpdateClient

func (s *soloSim) mkHeader(signSeq, signTs uint64, signDiv string, signPath []byte, newPK cryptotypes.PubKey, newDiv string, signer []cryptotypes.PrivKey, idx []int) *solomachine.Header {
	anyPK, err := codectypes.NewAnyWithValue(newPK)
	if err != nil {
		panic(kit.Abort{Msg: err.Error()})
	}
	dataBz, err := s.ch.Codec.Marshal(&solomachine.HeaderData{NewPubKey: anyPK, NewDiversifier: newDiv})
	if err != nil {
		panic(kit.Abort{Msg: err.Error()})
	}
	sig := s.signSubset(signer, idx, s.signBytes(signSeq, signTs, signDiv, signPath, dataBz))
	return &solomachine.Header{Timestamp: signTs, Signature: sig, NewPublicKey: anyPK, NewDiversifier: newDiv}
}

func (s *soloSim) deliverHeader(h exported.ClientMessage) *kit.Outcome {
	signer := s.ch.Acct(1 + s.r.Intn(5))
	msg, err := clienttypes.NewMsgUpdateClient(s.id, h, signer.SenderAccount.GetAddress().String())
	if err != nil {
		panic(kit.Abort{Msg: err.Error()})
	}
	return s.ch.Deliver(signer, msg)
}

func (s *soloSim) stepHeader() string {
	r := s.r
	privs := s.solo.PrivateKeys
	all := make([]int, len(privs))
	for i := range all {
		all[i] = i
	}
	// the new key and diversifier: kept or rotated
	newPrivs, newPubs, newPK, newThr := privs, s.solo.PublicKeys, s.solo.PublicKey, s.thr
	if r.Chance(1, 2) {
		n := 1
		if r.Bool() {
			n = 2 + r.Intn(3)
		}
		newThr = 1 + r.Intn(n)
		newPrivs, newPubs, newPK = detKeys(r, n, newThr)
	}
	newDiv := s.div
	if r.Chance(1, 3) {
		newDiv = fmt.Sprintf("div-%d", r.Intn(1000))
	}
	headerPath := []byte(solomachine.SentinelHeaderPath)
	nh := r.Intn(3)
	for h := 0; h < nh; h++ {
		ts := s.nextTs()
		if ts == 0 {
			ts = 1
		}
		labels := []string{"sequence", "timestamp", "diversifier", "path", "data-pubkey", "data-diversifier", "foreign-key", "earlier-timestamp"}
		if len(privs) > 1 {
			labels = append(labels, "below-threshold")
		}
		label := kit.Pick(r, labels)
		var hd *solomachine.Header
		switch label {
		case "sequence":
			hd = s.mkHeader(kit.Pick(r, []uint64{s.seq - 1, s.seq + 1, r.U64()}), ts, s.div, headerPath, newPK, newDiv, privs, all)
		case "timestamp":
			hd = s.mkHeader(s.seq, ts, s.div, headerPath, newPK, newDiv, privs, all)
			hd.Timestamp = ts + 1 + uint64(r.Intn(5))
		case "diversifier":
			hd = s.mkHeader(s.seq, ts, s.div+"x", headerPath, newPK, newDiv, privs, all)
		case "path":
			hd = s.mkHeader(s.seq, ts, s.div, append([]byte("x"), headerPath...), newPK, newDiv, privs, all)
		case "data-pubkey":
			hd = s.mkHeader(s.seq, ts, s.div, headerPath, newPK, newDiv, privs, all)
			_, _, other := detKeys(r, 1, 1)
			anyPK, _ := codectypes.NewAnyWithValue(other)
			hd.NewPublicKey = anyPK
		case "data-diversifier":
			hd = s.mkHeader(s.seq, ts, s.div, headerPath, newPK, newDiv, privs, all)
			hd.NewDiversifier = newDiv + "z"
		case "foreign-key":
			fp, _, _ := detKeys(r, len(privs), s.thr)
			hd = s.mkHeader(s.seq, ts, s.div, headerPath, newPK, newDiv, fp, all)
		case "below-threshold":
			idx := append([]int{}, all...)
			kit.Shuffle(r, idx)
			hd = s.mkHeader(s.seq, ts, s.div, headerPath, newPK, newDiv, privs, idx[:s.thr-1])
		case "earlier-timestamp":
			if s.ts <= 1 {
				continue
			}
			hd = s.mkHeader(s.seq, s.ts-1-uint64(r.Intn(int(min(s.ts-1, 3)))), s.div, headerPath, newPK, newDiv, privs, all)
		}
		if !s.hostile("header", label, func() *kit.Outcome { return s.deliverHeader(hd) }) {
			return "header!" + label
		}
	}
	ts := s.nextTs()
	if ts == 0 {
		ts = 1
	}
	hd := s.mkHeader(s.seq, ts, s.div, headerPath, newPK, newDiv, privs, all)
	pre := s.read()
	o := s.deliverHeader(hd)
	s.log("header honest seq=%d ts=%d rotate=%v newdiv=%q ok=%v", s.seq, ts, !newPK.Equals(s.solo.PublicKey), newDiv, o.OK())
	if !o.OK() {
		s.c.Inc("honest_rejected")
		s.log("honest header rejected: %s", o.Log)
		return "header?rejected"
	}
	s.c.Inc("accepted_header")
	if !s.judgeAccepted("header", pre, 1, ts) {
		return "header!bump"
	}
	post := s.read()
	anyPK, _ := codectypes.NewAnyWithValue(newPK)
	if post.div != newDiv || !bytes.Equal(post.pk, anyPK.Value) {
		s.viol("C26|header-accepted-other-data", "header accepted but the stored key/diversifier are not the signed ones (div %q want %q)", post.div, newDiv)
		return "header!data"
	}
	s.div, s.thr = newDiv, newThr
	s.solo.PrivateKeys, s.solo.PublicKeys, s.solo.PublicKey, s.solo.Diversifier = newPrivs, newPubs, newPK, newDiv
	s.hist = append(s.hist, soloHist{kind: "header", header: hd})
	return "header"
}

// ---------------------------------------------------------------------------------------------
// replay of everything accepted so far

func (s *soloSim) replayAll() bool {
	if len(s.hist) == 0 {
		return true
	}
	pre := s.read()
	type res struct {
		i   int
		err error
	}
	var accepted []int
	o := s.ch.InBlock(func(ctx sdk.Context) error {
		for i, h := range s.hist {
			var err error
			switch h.kind {
			case "header":
				err = kit.TryAll(func() {
					if e := s.ch.Sim.IBCKeeper.ClientKeeper.UpdateClient(ctx, s.id, h.header); e != nil {
						panic(e)
					}
				})
			case "member":
				err = s.verifyIn(ctx, true, h.proof, h.key, h.value)
			default:
				err = s.verifyIn(ctx, false, h.proof, h.key, nil)
			}
			s.c.Inc("replays")
			if err == nil {
				accepted = append(accepted, i)
			}
		}
		return nil // keep whatever the replays wrote: a correct client writes nothing
	})
	if len(accepted) > 0 {
		h := s.hist[accepted[0]]
		s.viol("C26|replay-accepted|"+h.kind, "replay of %d earlier accepted %s proof(s)/header(s) was accepted again (first: history index %d of %d)", len(accepted), h.kind, accepted[0], len(s.hist))
		post := s.read()
		s.seq, s.ts, s.div = post.seq, post.ts, post.div
		return false
	}
	if !s.judgeRejected("replay", pre, o) {
		return false
	}
	// one replay through a real signed MsgUpdateClient as well
	var hdrs []soloHist
	for _, h := range s.hist {
		if h.kind == "header" {
			hdrs = append(hdrs, h)
		}
	}
	if len(hdrs) > 0 && s.r.Chance(1, 3) {
		h := kit.Pick(s.r, hdrs)
		if !s.hostile("header", "replay", func() *kit.Outcome { return s.deliverHeader(h.header) }) {
			return false
		}
	}
	return true
}

// ---------------------------------------------------------------------------------------------
// real handshake / packet messages against the solo machine client

// flowProof signs (current sequence, ts, diversifier, key, value) with the ibctesting.Solomachine and returns the proof.
func (s *soloSim) flowProof(ts uint64, key, value []byte) []byte {
	s.solo.Sequence, s.solo.Time, s.solo.Diversifier = s.seq, ts, s.div
	p := s.solo.GenerateProof(&solomachine.SignBytes{Sequence: s.seq, Timestamp: ts, Diversifier: s.div, Path: key, Data: value})
	s.solo.Sequence = s.seq // the model advances only on observed acceptance
	return p
}

// flowMsg delivers one real message carrying one solo machine proof; a hostile twin (proof presented with another timestamp
// or signed for another sequence) goes first.
func (s *soloSim) flowMsg(op string, member bool, key, value []byte, build func(proof []byte) sdk.Msg) (*kit.Outcome, bool) {
	signer := s.ch.DefaultSender()
	if s.r.Chance(1, 2) {
		ts := s.nextTs()
		label := kit.Pick(s.r, []string{"timestamp", "sequence", "diversifier"})
		var proof []byte
		switch label {
		case "timestamp":
			proof = s.proofOf(s.solo.GenerateSignature(s.signBytes(s.seq, ts, s.div, key, value)), ts+1)
		case "sequence":
			proof = s.proofOf(s.solo.GenerateSignature(s.signBytes(s.seq+1, ts, s.div, key, value)), ts)
		case "diversifier":
			proof = s.proofOf(s.solo.GenerateSignature(s.signBytes(s.seq, ts, s.div+"q", key, value)), ts)
		}
		if !s.hostile(op, label, func() *kit.Outcome { return s.ch.Deliver(signer, build(proof)) }) {
			return nil, false
		}
	}
	ts := s.nextTs()
	proof := s.flowProof(ts, key, value)
	pre := s.read()
	msg := build(proof)
	o := s.ch.Deliver(signer, msg)
	s.log("%s honest seq=%d ts=%d ok=%v", op, s.seq, ts, o.OK())
	if !o.OK() {
		s.c.Inc("honest_rejected")
		s.log("honest %s rejected: %s", op, o.Log)
		s.flowDead = true
		return o, true
	}
	s.c.Inc("accepted_msg_" + op)
	if !s.judgeAccepted(op, pre, 1, ts) {
		return o, false
	}
	kind := "nonmember"
	if member {
		kind = "member"
	}
	s.hist = append(s.hist, soloHist{kind: kind, proof: proof, key: key, value: value})
	// the same signed message again: whatever the handler answers, nothing may change
	pre = s.read()
	o2 := s.ch.Deliver(signer, msg)
	s.c.Inc("msg_replays")
	post := s.read()
	if post.seq != pre.seq || post.ts != pre.ts || len(o2.Diff) != 0 {
		s.viol("C26|replay-accepted|msg-"+op, "re-delivery of the accepted %s message changed state (sequence %d -> %d):%s", op, pre.seq, post.seq, o2.DiffString())
		return o, false
	}
	return o, true
}

func (s *soloSim) stepFlow() string {
	if s.flowDead {
		return ""
	}
	ch := s.ch
	addr := ch.SenderAccount.GetAddress().String()
	cdc := ch.Codec
	switch s.flowStep {
	case 0:
		o := ch.Deliver(ch.DefaultSender(), connectiontypes.NewMsgConnectionOpenInit(s.id, soloCpClient, ch.GetPrefix(), ibctesting.DefaultOpenInitVersion, 0, addr))
		if !o.OK() {
			s.flowDead = true
			return "flow?init"
		}
		id, err := ibctesting.ParseConnectionIDFromEvents(o.Res.Events)
		if err != nil {
			s.flowDead = true
			return "flow?init"
		}
		s.connID = id
		s.flowStep++
		return "conn-init"
	case 1:
		cp := connectiontypes.NewCounterparty(s.id, s.connID, ch.GetPrefix())
		conn := connectiontypes.NewConnectionEnd(connectiontypes.TRYOPEN, soloCpClient, cp, []*connectiontypes.Version{ibctesting.ConnectionVersion}, 0)
		_, ok := s.flowMsg("ConnOpenAck", true, host.ConnectionKey(soloCpConn), cdc.MustMarshal(&conn), func(p []byte) sdk.Msg {
			return connectiontypes.NewMsgConnectionOpenAck(s.connID, soloCpConn, p, clienttypes.ZeroHeight(), ibctesting.ConnectionVersion, addr)
		})
		if !ok {
			return "flow!conn-ack"
		}
		if !s.flowDead {
			s.flowStep++
		}
		return "conn-ack"
	case 2:
		o := ch.Deliver(ch.DefaultSender(), channeltypes.NewMsgChannelOpenInit(transfertypes.PortID, transfertypes.V1, channeltypes.UNORDERED, []string{s.connID}, transfertypes.PortID, addr))
		if !o.OK() {
			s.flowDead = true
			return "flow?chan-init"
		}
		id, err := ibctesting.ParseChannelIDFromEvents(o.Res.Events)
		if err != nil {
			s.flowDead = true
			return "flow?chan-init"
		}
		s.chanID = id
		s.flowStep++
		return "chan-init"
	case 3:
		cpc := channeltypes.NewCounterparty(transfertypes.PortID, s.chanID)
		chn := channeltypes.NewChannel(channeltypes.TRYOPEN, channeltypes.UNORDERED, cpc, []string{soloCpConn}, transfertypes.V1)
		_, ok := s.flowMsg("ChanOpenAck", true, host.ChannelKey(transfertypes.PortID, soloCpChan), cdc.MustMarshal(&chn), func(p []byte) sdk.Msg {
			return channeltypes.NewMsgChannelOpenAck(transfertypes.PortID, s.chanID, soloCpChan, transfertypes.V1, p, clienttypes.ZeroHeight(), addr)
		})
		if !ok {
			return "flow!chan-ack"
		}
		if !s.flowDead {
			s.flowStep++
		}
		return "chan-ack"
	}
	// open channel: send / ack / timeout / recv
	switch k := s.r.Intn(4); {
	case k == 0 || len(s.pending) == 0 && k < 3:
		msg := transfertypes.NewMsgTransfer(transfertypes.PortID, s.chanID, ibctesting.TestCoin, addr, addr, clienttypes.ZeroHeight(), s.ts+1+uint64(s.r.Intn(50)), "")
		o := ch.Deliver(ch.DefaultSender(), msg)
		if !o.OK() {
			s.flowDead = true
			return "flow?transfer"
		}
		p, err := ibctesting.ParseV1PacketFromEvents(o.Res.Events)
		if err != nil {
			s.flowDead = true
			return "flow?transfer"
		}
		s.pending = append(s.pending, p)
		return "transfer"
	case k == 1:
		p := s.pending[0]
		ack := channeltypes.NewResultAcknowledgement([]byte{1}).Acknowledgement()
		_, ok := s.flowMsg("Acknowledgement", true, host.PacketAcknowledgementKey(p.DestinationPort, p.DestinationChannel, p.Sequence), channeltypes.CommitAcknowledgement(ack), func(pr []byte) sdk.Msg {
			return channeltypes.NewMsgAcknowledgement(p, ack, pr, clienttypes.ZeroHeight(), addr)
		})
		if !ok {
			return "flow!ack"
		}
		if !s.flowDead {
			s.pending = s.pending[1:]
		}
		return "ack"
	case k == 2:
		p := s.pending[0]
		if s.ts < p.TimeoutTimestamp {
			// the consensus timestamp has to pass the packet timeout first: an honest verification with a later timestamp does that
			key := []byte("advance/" + fmt.Sprint(s.seq))
			ts := p.TimeoutTimestamp + uint64(s.r.Intn(3))
			proof := s.proofOf(s.solo.GenerateSignature(s.signBytes(s.seq, ts, s.div, key, []byte{1})), ts)
			pre := s.read()
			o := ch.InBlock(func(ctx sdk.Context) error { return s.verifyIn(ctx, true, proof, key, []byte{1}) })
			if !o.OK() {
				s.c.Inc("honest_rejected")
				s.flowDead = true
				return "flow?advance"
			}
			s.c.Inc("accepted_member")
			if !s.judgeAccepted("member", pre, 1, ts) {
				return "flow!advance"
			}
			s.hist = append(s.hist, soloHist{kind: "member", proof: proof, key: key, value: []byte{1}})
		}
		_, ok := s.flowMsg("Timeout", false, host.PacketReceiptKey(p.DestinationPort, p.DestinationChannel, p.Sequence), nil, func(pr []byte) sdk.Msg {
			return channeltypes.NewMsgTimeout(p, 1, pr, clienttypes.ZeroHeight(), addr)
		})
		if !ok {
			return "flow!timeout"
		}
		if !s.flowDead {
			s.pending = s.pending[1:]
		}
		return "timeout"
	default:
		s.recvSeq++
		data := transfertypes.NewFungibleTokenPacketData("solocoin", "5", addr, addr, "")
		p := channeltypes.NewPacket(data.GetBytes(), s.recvSeq, transfertypes.PortID, soloCpChan, transfertypes.PortID, s.chanID, clienttypes.NewHeight(1, 1_000_000), 0)
		_, ok := s.flowMsg("RecvPacket", true, host.PacketCommitmentKey(p.SourcePort, p.SourceChannel, p.Sequence), channeltypes.CommitPacket(p), func(pr []byte) sdk.Msg {
			return channeltypes.NewMsgRecvPacket(p, pr, clienttypes.ZeroHeight(), addr)
		})
		if !ok {
			return "flow!recv"
		}
		return "recv"
	}
}

// ---------------------------------------------------------------------------------------------
// misbehaviour and the frozen client

func (s *soloSim) sigAndData(seq, ts uint64, div string, key, data []byte, signer []cryptotypes.PrivKey) *solomachine.SignatureAndData {
	mp := commitmenttypes.NewMerklePath(key)
	path, err := s.ch.Codec.Marshal(&mp)
	if err != nil {
		panic(kit.Abort{Msg: err.Error()})
	}
	all := make([]int, len(signer))
	for i := range all {
		all[i] = i
	}
	return &solomachine.SignatureAndData{Signature: s.signSubset(signer, all, s.signBytes(seq, ts, div, path, data)), Path: path, Data: data, Timestamp: ts}
}

func (s *soloSim) endMisbehaviour() string {
	r := s.r
	privs := s.solo.PrivateKeys
	mseq := kit.Pick(r, []uint64{s.seq, s.seq, s.seq + 1 + uint64(r.Intn(3)), max(s.seq-1, 1)})
	ts1, ts2 := 1+uint64(r.Intn(100)), 1+uint64(r.Intn(100))
	k1, k2 := append([]byte("clients/a/"), r.Bytes(4)...), append([]byte("clients/b/"), r.Bytes(4)...)
	d1, d2 := r.Bytes(1+r.Intn(20)), r.Bytes(1+r.Intn(20))
	// invalid evidence first: one of the two signatures does not cover what is claimed
	for h := r.Intn(3); h > 0; h-- {
		one := s.sigAndData(mseq, ts1, s.div, k1, d1, privs)
		var two *solomachine.SignatureAndData
		label := kit.Pick(r, []string{"sequence", "diversifier", "foreign-key", "data", "timestamp"})
		switch label {
		case "sequence":
			two = s.sigAndData(mseq+1, ts2, s.div, k2, d2, privs)
		case "diversifier":
			two = s.sigAndData(mseq, ts2, s.div+"m", k2, d2, privs)
		case "foreign-key":
			fp, _, _ := detKeys(r, len(privs), s.thr)
			two = s.sigAndData(mseq, ts2, s.div, k2, d2, fp)
		case "data":
			two = s.sigAndData(mseq, ts2, s.div, k2, d2, privs)
			two.Data = append(bytes.Clone(d2), 1)
		case "timestamp":
			two = s.sigAndData(mseq, ts2, s.div, k2, d2, privs)
			two.Timestamp = ts2 + 1
		}
		mb := &solomachine.Misbehaviour{Sequence: mseq, SignatureOne: one, SignatureTwo: two}
		if r.Bool() {
			mb.SignatureOne, mb.SignatureTwo = two, one
		}
		if !s.hostile("misbehaviour", label, func() *kit.Outcome { return s.deliverHeader(mb) }) {
			return "misb!" + label
		}
	}
	mb := &solomachine.Misbehaviour{Sequence: mseq, SignatureOne: s.sigAndData(mseq, ts1, s.div, k1, d1, privs), SignatureTwo: s.sigAndData(mseq, ts2, s.div, k2, d2, privs)}
	pre := s.read()
	o := s.deliverHeader(mb)
	s.log("misbehaviour seq=%d (client seq %d) ok=%v", mseq, s.seq, o.OK())
	post := s.read()
	if !post.frozen {
		s.viol("C26|valid-misbehaviour-did-not-freeze", "two valid signatures over different data at sequence %d (client sequence %d) did not freeze the client (tx ok=%v: %s)", mseq, s.seq, o.OK(), o.Log)
		return "misb!nofreeze"
	}
	if post.seq != pre.seq || post.ts != pre.ts {
		s.viol("C26|misbehaviour-changed-sequence", "misbehaviour changed sequence/timestamp %+v -> %+v", pre, post)
		return "misb!seq"
	}
	s.frozen = true
	s.c.Inc("freezes")
	// the frozen client accepts nothing
	all := make([]int, len(privs))
	for i := range all {
		all[i] = i
	}
	probes := 0
	for _, probe := range []string{"member", "nonmember", "header", "misbehaviour"} {
		ts := s.nextTs()
		if ts == 0 {
			ts = 1
		}
		var run func() *kit.Outcome
		switch probe {
		case "member", "nonmember":
			key := append([]byte("frozen/"), r.Bytes(4)...)
			var val []byte
			if probe == "member" {
				val = r.Bytes(8)
			}
			proof := s.proofOf(s.solo.GenerateSignature(s.signBytes(s.seq, ts, s.div, key, val)), ts)
			run = func() *kit.Outcome {
				return s.ch.InBlock(func(ctx sdk.Context) error { return s.verifyIn(ctx, probe == "member", proof, key, val) })
			}
		case "header":
			hd := s.mkHeader(s.seq, ts, s.div, []byte(solomachine.SentinelHeaderPath), s.solo.PublicKey, s.div, privs, all)
			run = func() *kit.Outcome { return s.deliverHeader(hd) }
		case "misbehaviour":
			mb2 := &solomachine.Misbehaviour{Sequence: mseq, SignatureOne: s.sigAndData(mseq, ts1+1, s.div, k1, d1, privs), SignatureTwo: s.sigAndData(mseq, ts2+1, s.div, k2, d2, privs)}
			run = func() *kit.Outcome { return s.deliverHeader(mb2) }
		}
		if !s.hostile(probe, "frozen-client", run) {
			return "frozen!" + probe
		}
		probes++
	}
	s.c.Obs("frozen_probes_rejected", int64(probes))
	// and no replay either
	if !s.replayAll() {
		return "frozen!replay"
	}
	return "misbehaviour+frozen"
}

// ---------------------------------------------------------------------------------------------

func TestC26(t *testing.T) {
	c := kit.NewCheck(t, "C26", "exploration", c26Rule)
	defer c.Finish()
	c.Assume("secp256k1 / amino-multisig signature verification of the SDK is the trusted base; the harness' ground truth is the exact sign bytes it signed")
	c.Assume("an honest operation being refused is not a violation of the statement; it is counted (honest_rejected) and bounded by floors on accepted operations")
	for k, v := range map[string]int64{
		"sequence_bumps_checked": 300, "accepted_header": 60, "accepted_member": 130, "accepted_nonmember": 65, "hostile_rejected": 430, "replays": 3000,
		"freezes": 8, "frozen_probes_rejected": 32, "accepted_msg_ConnOpenAck": 7, "accepted_msg_ChanOpenAck": 7, "msg_replays": 25,
		"hostile_rejected_sequence": 45, "hostile_rejected_timestamp": 35, "hostile_rejected_diversifier": 35, "hostile_rejected_path": 30, "hostile_rejected_data": 30,
		"hostile_rejected_earlier-timestamp": 35, "hostile_rejected_replay": 70, "hostile_rejected_foreign-key": 35, "hostile_rejected_below-threshold": 8,
	} {
		c.Floor(k, v)
	}

	w := kit.NewWorld(t, 1)
	ch := w.Chains[0]
	n := c.N(60, 250)
	for i := 0; i < n; i++ {
		if c.SkipCase(i) {
			continue
		}
		r := c.CaseRng(i)
		c.Inc("cases")
		var classes []string
		err := kit.Try(func() {
			nkeys := 1
			if r.Bool() {
				nkeys = 2 + r.Intn(3)
			}
			div := kit.Pick(r, []string{"", "solo", fmt.Sprintf("d%d", r.Intn(100))})
			solo := ibctesting.NewSolomachine(t, ch.Codec, "solo", div, uint64(nkeys))
			s := &soloSim{c: c, r: r, ch: ch, solo: solo, div: div}
			s.thr = 1
			if nkeys > 1 {
				s.thr = 1 + r.Intn(nkeys)
			}
			solo.PrivateKeys, solo.PublicKeys, solo.PublicKey = detKeys(r, nkeys, s.thr)
			solo.Sequence = kit.Pick(r, []uint64{1, 1, 2, 1 + uint64(r.Intn(1000)), 1 << 32, 1<<62 + uint64(r.Intn(10))})
			solo.Time = kit.Pick(r, []uint64{1, 10, 10, 1 + uint64(r.Intn(100000)), 1_700_000_000_000_000_000})
			s.seq, s.ts = solo.Sequence, solo.Time
			s.id = solo.CreateClient(ch.TestChain)
			if st := s.read(); st.seq != s.seq || st.ts != s.ts || st.frozen {
				panic(kit.Abort{Msg: "fresh client does not have the initial state"})
			}
			withFlow := r.Chance(1, 2)
			nsteps := 12 + r.Intn(14)
			for j := 0; j < nsteps; j++ {
				var cls string
				k := r.Intn(10)
				switch {
				case withFlow && k < 4:
					cls = s.stepFlow()
					if cls == "" {
						cls = s.stepVerify(r.Bool())
					}
				case k < 6:
					cls = s.stepVerify(true)
				case k < 8:
					cls = s.stepVerify(false)
				default:
					cls = s.stepHeader()
				}
				classes = append(classes, cls)
				s.cls = append(s.cls, cls)
				if bytes.ContainsAny([]byte(cls), "!") {
					return
				}
				if !s.replayAll() {
					classes = append(classes, "replay!")
					return
				}
			}
			if r.Chance(1, 3) {
				s.cls = append(s.cls, s.endMisbehaviour())
			}
			classes = s.cls
			if i < 2 {
				c.Sample(map[string]any{"case": c.CaseID(i), "keys": nkeys, "threshold": s.thr, "trace": s.trace[:min(len(s.trace), 20)]})
			}
		})
		if err != nil {
			c.Inconcl(err.Error())
			continue
		}
		c.Eval(fmt.Sprint(classes))
	}
}
