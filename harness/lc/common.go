// Package lc holds the runtime monitors of the light-client properties C26 (solo machine),
// C27 (localhost) and C28 (attestations).
package lc

import (
	"bytes"
	"crypto/sha256"
	"sort"

	codectypes "github.com/cosmos/cosmos-sdk/codec/types"

	clienttypes "github.com/cosmos/ibc-go/v11/modules/core/02-client/types"
	"github.com/cosmos/ibc-go/v11/modules/core/exported"
	ibctm "github.com/cosmos/ibc-go/v11/modules/light-clients/07-tendermint"
)

func sortStrings(s []string) { sort.Strings(s) }

func sameMap(a, b map[string][]byte) bool {
	if len(a) != len(b) {
		return false
	}
	for k, v := range a {
		w, ok := b[k]
		if !ok || !bytes.Equal(v, w) {
			return false
		}
	}
	return true
}

// fakeLocalhostState is a client state whose only purpose is to announce the client type
// "09-localhost" inside a MsgCreateClient handed to the real msg server.
type fakeLocalhostState struct{}

func (*fakeLocalhostState) Reset()             {}
func (*fakeLocalhostState) String() string     { return "fakeLocalhostState" }
func (*fakeLocalhostState) ProtoMessage()      {}
func (*fakeLocalhostState) ClientType() string { return exported.Localhost }
func (*fakeLocalhostState) Validate() error    { return nil }

// Marshal/Size make the value packable into an Any without a registered descriptor.
func (*fakeLocalhostState) Marshal() ([]byte, error) { return []byte{}, nil }
func (*fakeLocalhostState) Size() int                { return 0 }

func newLocalhostCreateMsg(signer string) (*clienttypes.MsgCreateClient, error) {
	anyCS, err := codectypes.NewAnyWithValue(&fakeLocalhostState{})
	if err != nil {
		return nil, err
	}
	anyCons, err := clienttypes.PackConsensusState(&ibctm.ConsensusState{})
	if err != nil {
		return nil, err
	}
	return &clienttypes.MsgCreateClient{ClientState: anyCS, ConsensusState: anyCons, Signer: signer}, nil
}

func sortU64(s []uint64) { sort.Slice(s, func(i, j int) bool { return s[i] < s[j] }) }

func sha256sum(b []byte) []byte {
	d := sha256.Sum256(b)
	return d[:]
}
