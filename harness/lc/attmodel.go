package lc

import (
	"crypto/ecdsa"
	"crypto/sha256"
	"encoding/binary"
	"math/big"

	"github.com/ethereum/go-ethereum/common"
	"github.com/ethereum/go-ethereum/crypto"
)

// Independent reference model of the attestations light client, written from the property statement
// (C28) and the wire format documented in the client's README/ABI description:
//   - an attestation is accepted only with >= quorum valid 65-byte signatures of distinct configured attestors
//   - signatures cover sha256(tag || sha256(data)); tag 0x01 = state (client update), 0x02 = packet (membership proofs)
//   - state data  = abi.encode(uint64 height, uint64 timestampSeconds)
//   - packet data = abi.encode(PacketAttestation{uint64 height, (bytes32 path, bytes32 commitment)[] packets})
//   - path = keccak256(commitment path), commitment = 32 raw bytes; 32 zero bytes attest absence

const (
	attTagState  byte = 0x01
	attTagPacket byte = 0x02
)

type attPacket struct {
	Path       [32]byte
	Commitment [32]byte
}

func word(v uint64) []byte {
	w := make([]byte, 32)
	binary.BigEndian.PutUint64(w[24:], v)
	return w
}

// encodeState is abi.encode(uint64,uint64).
func encodeState(height, tsSeconds uint64) []byte {
	return append(word(height), word(tsSeconds)...)
}

// encodePackets is abi.encode of the (dynamic) struct {uint64 height; tuple(bytes32,bytes32)[] packets}.
func encodePackets(height uint64, packets []attPacket) []byte {
	out := word(0x20)                  // offset of the struct
	out = append(out, word(height)...) // head: height
	out = append(out, word(0x40)...)   // head: offset of the array inside the struct
	out = append(out, word(uint64(len(packets)))...)
	for _, p := range packets {
		out = append(out, p.Path[:]...)
		out = append(out, p.Commitment[:]...)
	}
	return out
}

func taggedDigest(tag byte, data []byte) []byte {
	inner := sha256.Sum256(data)
	pre := append([]byte{tag}, inner[:]...)
	d := sha256.Sum256(pre)
	return d[:]
}

type attModel struct {
	attestors map[common.Address]bool
	quorum    int
	// consensus timestamps in nanoseconds, exact (no wrap-around)
	cons   map[uint64]*big.Int
	latest uint64
	frozen bool
}

// signerOf recovers the address that produced a 65-byte signature over digest; both recovery-id conventions
// (0/1 and 27/28) are understood. ok=false for anything that is not a well-formed recoverable signature.
func signerOf(digest, sig []byte) (common.Address, bool) {
	if len(sig) != 65 {
		return common.Address{}, false
	}
	s := make([]byte, 65)
	copy(s, sig)
	switch s[64] {
	case 27, 28:
		s[64] -= 27
	case 0, 1:
	default:
		return common.Address{}, false
	}
	pub, err := crypto.Ecrecover(digest, s)
	if err != nil || len(pub) != 65 {
		return common.Address{}, false
	}
	var a common.Address
	copy(a[:], crypto.Keccak256(pub[1:])[12:])
	return a, true
}

// validSigners = distinct configured attestors with a valid signature over exactly (tag, data).
func (m *attModel) validSigners(tag byte, data []byte, sigs [][]byte) int {
	d := taggedDigest(tag, data)
	seen := map[common.Address]bool{}
	for _, sig := range sigs {
		a, ok := signerOf(d, sig)
		if ok && m.attestors[a] {
			seen[a] = true
		}
	}
	return len(seen)
}

func (m *attModel) quorumMet(tag byte, data []byte, sigs [][]byte) bool {
	return m.validSigners(tag, data, sigs) >= m.quorum
}

func nsOfSeconds(sec uint64) *big.Int {
	return new(big.Int).Mul(new(big.Int).SetUint64(sec), big.NewInt(1_000_000_000))
}

func addrOf(k *ecdsa.PrivateKey) common.Address { return crypto.PubkeyToAddress(k.PublicKey) }

// secp256k1 group order, for the (r, n-s, v^1) twin of a signature
var secpN, _ = new(big.Int).SetString("fffffffffffffffffffffffffffffffebaaedce6af48a03bbfd25e8cd0364141", 16)

func malleate(sig []byte) []byte {
	out := make([]byte, 65)
	copy(out, sig)
	s := new(big.Int).SetBytes(sig[32:64])
	s.Sub(secpN, s)
	s.FillBytes(out[32:64])
	out[64] = sig[64] ^ 1
	return out
}
