package lc

import (
	"bytes"
	"errors"
	"fmt"
	"testing"

	sdk "github.com/cosmos/cosmos-sdk/types"
	authtypes "github.com/cosmos/cosmos-sdk/x/auth/types"
	govtypes "github.com/cosmos/cosmos-sdk/x/gov/types"

	clienttypes "github.com/cosmos/ibc-go/v11/modules/core/02-client/types"
	commitmenttypesv2 "github.com/cosmos/ibc-go/v11/modules/core/23-commitment/types/v2"
	"github.com/cosmos/ibc-go/v11/modules/core/exported"
	ibctm "github.com/cosmos/ibc-go/v11/modules/light-clients/07-tendermint"
	ibctesting "github.com/cosmos/ibc-go/v11/testing"

	"verif/harness/kit"
)

const c27Rule = "cases = one chain with a populated ibc store (two-chain setup with clients, connection, channels, a few packets) plus PRNG writes/deletes made by the harness; " +
	"each case = a batch of VerifyMembership/VerifyNonMembership calls on client 09-localhost through ClientKeeper in a block context for keys that are present (exact value / altered value), " +
	"absent (random, truncations, extensions of present keys), written or deleted in the same block, with sentinel and non-sentinel proofs, arbitrary heights/delays, plus create/update/upgrade/recover " +
	"operations addressed to 09-localhost; distinct = (verification kind, key class, value class, proof class, outcome)"

var errDiscard = errors.New("harness: roll the block's writes back")

// localhostSentinel is the proof the statement calls "the sentinel proof" (ICS-09: a single byte 0x01).
var localhostSentinel = []byte{0x01}

type lhModel struct {
	m map[string][]byte
}

func (m *lhModel) keys() []string {
	ks := make([]string, 0, len(m.m))
	for k := range m.m {
		ks = append(ks, k)
	}
	sortStrings(ks)
	return ks
}

func TestC27(t *testing.T) {
	c := kit.NewCheck(t, "C27", "exploration", c27Rule)
	defer c.Finish()
	c.Assume("keys are non-empty byte strings (an empty key cannot exist in an SDK KV store; a lookup of it panics in the store layer)")
	c.Assume("the harness never overwrites or deletes the 02-client parameter key: the client keeper needs it to route any call to the localhost module")
	c.Assume("the reference view of the ibc store is the committed store content read through the multistore plus the harness' own writes in the verifying block")
	c.Floor("verify_calls", 2000)
	c.Floor("membership_accepted", 150)
	c.Floor("nonmembership_accepted", 400)
	c.Floor("rejected_nonsentinel", 700)
	c.Floor("rejected_by_store_content", 700)
	c.Floor("client_ops_rejected", 100)
	c.Floor("inblock_writes", 350)
	c.Floor("lane_honest_accepted", 50)
	c.Floor("lane_hostile_rejected", 120)

	w := kit.NewWorld(t, 2)
	a, b := w.Chains[0], w.Chains[1]
	// populate the ibc store with realistic content
	if err := kit.Try(func() {
		p := ibctesting.NewPath(a.TestChain, b.TestChain)
		p.Setup()
		for i := 0; i < 3; i++ {
			seq, err := p.EndpointA.SendPacket(clienttypes.NewHeight(1, 10000), 0, ibctesting.MockPacketData)
			if err != nil {
				panic(kit.Abort{Msg: err.Error()})
			}
			_ = seq
		}
		p2 := ibctesting.NewTransferPath(a.TestChain, b.TestChain)
		p2.Setup()
		p3 := ibctesting.NewPath(a.TestChain, b.TestChain)
		p3.SetupV2()
	}); err != nil {
		c.Inconcl("setup: " + err.Error())
		return
	}
	ck := a.Sim.IBCKeeper.ClientKeeper
	ibcKey := a.Sim.GetKey("ibc")

	n := c.N(150, 800)
	for i := 0; i < n; i++ {
		if c.SkipCase(i) {
			continue
		}
		r := c.CaseRng(i)
		c.Inc("cases")
		model := &lhModel{m: a.StoreMap("ibc")}
		present := model.keys()
		var classes []string

		type call struct {
			member        bool
			key, value    []byte
			proof         []byte
			plen          int
			kcls, vcls    string
			pcls          string
			height        exported.Height
			d1, d2        uint64
			wantOK, judge bool
			gotErr        error
		}
		var calls []*call
		var writes int
		// discard mode: the harness overwrites/deletes real ibc keys inside the block and the block's writes are rolled back afterwards;
		// commit mode: only keys in the harness' own "verif/" key space are written, and they are committed
		discard := r.Bool()
		pre := a.StoreMap("ibc")
		verifKeys := func() []string {
			var ks []string
			for _, k := range present {
				if bytes.HasPrefix([]byte(k), []byte("verif/")) {
					ks = append(ks, k)
				}
			}
			return ks
		}

		o := a.InBlock(func(ctx sdk.Context) error {
			st := ctx.KVStore(ibcKey)
			nops := 30 + r.Intn(30)
			for j := 0; j < nops; j++ {
				// occasionally mutate the store inside the block: the client must see the chain's own, current store
				if r.Chance(1, 6) {
					// the client keeper reads its own parameters before it routes to the localhost module: never touch that key
					var pool []string
					if discard {
						for _, k := range present {
							if k != clienttypes.ParamsKey {
								pool = append(pool, k)
							}
						}
					} else {
						pool = verifKeys()
					}
					kindW := r.Intn(3)
					if len(pool) == 0 {
						kindW = 0
					}
					switch kindW {
					case 0: // write a fresh key
						k := append([]byte("verif/"), r.Bytes(1+r.Intn(12))...)
						v := r.Bytes(1 + r.Intn(40))
						st.Set(k, v)
						model.m[string(k)] = v
					case 1: // overwrite a present key
						k := []byte(kit.Pick(r, pool))
						v := r.Bytes(1 + r.Intn(40))
						st.Set(k, v)
						model.m[string(k)] = v
					case 2: // delete a present key
						k := []byte(kit.Pick(r, pool))
						st.Delete(k)
						delete(model.m, string(k))
					}
					writes++
					present = model.keys()
				}
				cl := &call{member: r.Bool(), plen: 2, judge: true}
				// key class
				switch r.Intn(8) {
				case 0, 1, 2:
					cl.key, cl.kcls = []byte(kit.Pick(r, present)), "present"
				case 3:
					k := []byte(kit.Pick(r, present))
					cl.key, cl.kcls = append(bytes.Clone(k), byte(r.Intn(256))), "present+byte"
				case 4:
					k := []byte(kit.Pick(r, present))
					if len(k) > 1 {
						k = k[:len(k)-1-r.Intn(len(k)-1)]
					}
					cl.key, cl.kcls = bytes.Clone(k), "present-truncated"
				case 5:
					cl.key, cl.kcls = r.Bytes(1+r.Intn(24)), "random"
				case 6:
					k := bytes.Clone([]byte(kit.Pick(r, present)))
					k[r.Intn(len(k))] ^= byte(1 << r.Intn(8))
					cl.key, cl.kcls = k, "present-bitflip"
				case 7:
					cl.key, cl.kcls = []byte("verif/"+string(r.Bytes(1+r.Intn(3)))), "harness-space"
				}
				cur, has := model.m[string(cl.key)]
				// value class (membership only)
				if cl.member {
					switch {
					case has && r.Chance(2, 3):
						cl.value, cl.vcls = bytes.Clone(cur), "stored"
					case has && r.Chance(1, 2):
						v := bytes.Clone(cur)
						v[r.Intn(len(v))] ^= byte(1 << r.Intn(8))
						cl.value, cl.vcls = v, "bitflip"
					case has && r.Chance(1, 2):
						cl.value, cl.vcls = bytes.Clone(cur[:len(cur)-1]), "truncated"
					case has:
						cl.value, cl.vcls = append(bytes.Clone(cur), 0), "extended"
					case r.Chance(1, 3):
						cl.value, cl.vcls = nil, "nil"
					default:
						cl.value, cl.vcls = r.Bytes(1+r.Intn(33)), "random"
					}
				}
				// proof class
				switch r.Intn(14) {
				case 0:
					cl.proof, cl.pcls = nil, "nil"
				case 1:
					cl.proof, cl.pcls = []byte{}, "empty"
				case 2:
					cl.proof, cl.pcls = []byte{0x00}, "0x00"
				case 3:
					cl.proof, cl.pcls = []byte{0x01, 0x01}, "0x0101"
				case 4:
					cl.proof, cl.pcls = r.Bytes(1+r.Intn(40)), "random"
				default:
					cl.proof, cl.pcls = bytes.Clone(localhostSentinel), "sentinel"
				}
				if r.Chance(1, 15) {
					cl.plen = kit.Pick(r, []int{1, 3})
				}
				cl.height = clienttypes.NewHeight(r.Boundary64()%3, r.Boundary64())
				cl.d1, cl.d2 = r.Boundary64(), r.Boundary64()
				sentinel := bytes.Equal(cl.proof, localhostSentinel)
				if cl.member {
					cl.wantOK = sentinel && has && bytes.Equal(cur, cl.value)
				} else {
					cl.wantOK = sentinel && !has
				}
				var kp [][]byte
				storePrefix := []byte("ibc")
				if r.Chance(1, 10) {
					storePrefix = r.Bytes(1 + r.Intn(5))
				}
				switch cl.plen {
				case 1:
					kp = [][]byte{cl.key}
					cl.judge = false
				case 3:
					kp = [][]byte{storePrefix, cl.key, cl.key}
					cl.judge = false
				default:
					kp = [][]byte{storePrefix, cl.key}
				}
				path := commitmenttypesv2.MerklePath{KeyPath: kp}
				cl.gotErr = kit.TryAll(func() {
					var err error
					if cl.member {
						err = ck.VerifyMembership(ctx, exported.LocalhostClientID, cl.height, cl.d1, cl.d2, cl.proof, path, cl.value)
					} else {
						err = ck.VerifyNonMembership(ctx, exported.LocalhostClientID, cl.height, cl.d1, cl.d2, cl.proof, path)
					}
					if err != nil {
						panic(err)
					}
				})
				calls = append(calls, cl)
			}
			if discard {
				return errDiscard
			}
			return nil
		})
		c.Obs("inblock_writes", int64(writes))
		// the block's state change must be exactly the harness' own writes: verification never writes
		after := a.StoreMap("ibc")
		want := model.m
		if discard {
			want = pre
		}
		if !sameMap(after, want) {
			c.Violate("C27|verification-changed-store", "ibc store after a block of localhost verifications differs from the harness' own writes", map[string]any{"diff": o.DiffString()})
		}
		for _, cl := range calls {
			kind := "nonmember"
			if cl.member {
				kind = "member"
			}
			got := cl.gotErr == nil
			c.Inc("verify_calls")
			if !cl.judge {
				c.Inc("malformed_path_calls")
				// a path that does not name (store, key) cannot be equivalent to a key lookup: it may only be refused
				if got && cl.plen == 1 {
					c.Violate("C27|accepted|path-without-key", fmt.Sprintf("%s verification accepted with a 1-element path", kind), nil)
				}
				continue
			}
			cls := fmt.Sprintf("%s|%s|%s|%s|%v", kind, cl.kcls, cl.vcls, cl.pcls, got)
			classes = append(classes, cls)
			c.Eval(cls)
			if got != cl.wantOK {
				dir := "accepted"
				if !got {
					dir = "rejected"
				}
				sig := fmt.Sprintf("C27|%s|%s|key=%s|value=%s|proof=%s", kind, dir, cl.kcls, cl.vcls, cl.pcls)
				c.Violate(sig, fmt.Sprintf("localhost %s verification %s but the reference view of the ibc store says it should be %v (key %q, value %x, proof %x, err=%v)",
					kind, dir, cl.wantOK, cl.key, cl.value, cl.proof, cl.gotErr),
					map[string]any{"key": cl.key, "value": cl.value, "proof": cl.proof, "height": cl.height.String()})
				continue
			}
			switch {
			case got && cl.member:
				c.Inc("membership_accepted")
			case got:
				c.Inc("nonmembership_accepted")
			case !bytes.Equal(cl.proof, localhostSentinel):
				c.Inc("rejected_nonsentinel")
			default:
				c.Inc("rejected_by_store_content")
			}
		}
		if i < 2 && len(classes) > 0 {
			c.Sample(map[string]any{"case": c.CaseID(i), "calls": classes[:min(len(classes), 12)]})
		}

		// client operations addressed to the localhost client must all be refused and change nothing
		c27ClientOps(c, r, a, b)
		c27ClientOps(c, r, a, b)
		// real-message lane over connection-localhost; it also makes the committed store evolve through real code
		if i%5 == 0 {
			c27Lane(c, r.Sub("lane"), a)
		}
	}
}

func c27ClientOps(c *kit.Check, r *kit.Rng, a, b *kit.Chain) {
	ik := a.Sim.IBCKeeper
	signer := a.Acct(1 + r.Intn(5))
	addr := signer.SenderAccount.GetAddress().String()
	authority := authtypes.NewModuleAddress(govtypes.ModuleName).String()
	tmClients := []string{}
	for k := range a.StoreMap("ibc") {
		var id string
		if n, _ := fmt.Sscanf(k, "clients/07-tendermint-%s", &id); n == 1 && bytes.HasSuffix([]byte(k), []byte("/clientState")) {
			tmClients = append(tmClients, k[len("clients/"):len(k)-len("/clientState")])
		}
	}
	sortStrings(tmClients)
	judge := func(op string, o *kit.Outcome) {
		c.Eval("clientop|" + op + fmt.Sprintf("|%v", o.OK()))
		if o.OK() {
			c.Violate("C27|clientop-accepted|"+op, "client operation "+op+" addressed to 09-localhost succeeded", map[string]any{"diff": o.DiffString()})
			return
		}
		if len(o.Diff) != 0 {
			c.Violate("C27|clientop-rejected-but-wrote|"+op, "rejected client operation "+op+" on 09-localhost changed state:"+o.DiffString(), nil)
			return
		}
		c.Inc("client_ops_rejected")
	}
	// a real client state / header to put into the messages
	var tmCS exported.ClientState
	var header exported.ClientMessage
	if len(tmClients) > 0 {
		id := kit.Pick(r, tmClients)
		tmCS, _ = ik.ClientKeeper.GetClientState(a.GetContext(), id)
		_ = kit.Try(func() {
			h, err := b.IBCClientHeader(b.LatestCommittedHeader, clienttypes.NewHeight(1, 2))
			if err == nil {
				header = h
			}
		})
	}
	if tmCS == nil {
		c.Inconcl("no tendermint client state available for client-op messages")
		return
	}
	if header == nil {
		header = &ibctm.Header{}
	}
	switch r.Intn(6) {
	case 0: // MsgUpdateClient through a signed transaction
		msg, err := clienttypes.NewMsgUpdateClient(exported.LocalhostClientID, header, addr)
		if err != nil {
			c.Inconcl(err.Error())
			return
		}
		judge("MsgUpdateClient", a.Deliver(signer, msg))
	case 1: // MsgUpgradeClient through a signed transaction
		consState, _ := ik.ClientKeeper.GetLatestClientConsensusState(a.GetContext(), kit.Pick(r, tmClients))
		if consState == nil {
			consState = &ibctm.ConsensusState{}
		}
		msg, err := clienttypes.NewMsgUpgradeClient(exported.LocalhostClientID, tmCS, consState, r.Bytes(1+r.Intn(8)), r.Bytes(1+r.Intn(8)), addr)
		if err != nil {
			c.Inconcl(err.Error())
			return
		}
		judge("MsgUpgradeClient", a.Deliver(signer, msg))
	case 2: // MsgRecoverClient handled by the real msg server with the governance authority as signer
		subst := kit.Pick(r, append([]string{exported.LocalhostClientID}, tmClients...))
		subj := exported.LocalhostClientID
		if r.Chance(1, 4) && subst != exported.LocalhostClientID {
			// localhost as substitute of a real client is a recover operation addressed to localhost as well
			subj, subst = subst, exported.LocalhostClientID
		}
		msg := clienttypes.NewMsgRecoverClient(authority, subj, subst)
		judge("MsgRecoverClient", a.InBlock(func(ctx sdk.Context) error {
			_, err := ik.RecoverClient(ctx, msg)
			return err
		}))
	case 3: // keeper-level create with the localhost type
		bz1, bz2 := r.Bytes(r.Intn(20)), r.Bytes(r.Intn(20))
		if r.Bool() {
			bz1 = a.Codec.MustMarshal(tmCS.(*ibctm.ClientState))
		}
		judge("CreateClient", a.InBlock(func(ctx sdk.Context) error {
			_, err := ik.ClientKeeper.CreateClient(ctx, exported.Localhost, bz1, bz2)
			return err
		}))
	case 4: // MsgCreateClient handled by the real msg server, carrying a client state whose type is 09-localhost
		msg, err := newLocalhostCreateMsg(addr)
		if err != nil {
			c.Inconcl("cannot build localhost MsgCreateClient: " + err.Error())
			return
		}
		if cs, err := clienttypes.UnpackClientState(msg.ClientState); err != nil || cs.ClientType() != exported.Localhost {
			c.Inconcl("localhost MsgCreateClient does not unpack to a 09-localhost client state")
			return
		}
		judge("MsgCreateClient", a.InBlock(func(ctx sdk.Context) error {
			_, err := ik.CreateClient(ctx, msg)
			return err
		}))
	case 5: // keeper-level update / upgrade
		if r.Bool() {
			judge("UpdateClient", a.InBlock(func(ctx sdk.Context) error {
				return ik.ClientKeeper.UpdateClient(ctx, exported.LocalhostClientID, header)
			}))
		} else {
			judge("UpgradeClient", a.InBlock(func(ctx sdk.Context) error {
				return ik.ClientKeeper.UpgradeClient(ctx, exported.LocalhostClientID, r.Bytes(10), r.Bytes(10), r.Bytes(4), r.Bytes(4))
			}))
		}
	}
}
