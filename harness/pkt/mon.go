package pkt

import (
	"bytes"
	"crypto/sha256"
	"encoding/binary"
	"fmt"
	"strings"

	"github.com/cosmos/gogoproto/proto"

	transfertypes "github.com/cosmos/ibc-go/v11/modules/apps/transfer/types"
	clienttypes "github.com/cosmos/ibc-go/v11/modules/core/02-client/types"
	channeltypes "github.com/cosmos/ibc-go/v11/modules/core/04-channel/types"
	channeltypesv2 "github.com/cosmos/ibc-go/v11/modules/core/04-channel/v2/types"
	host "github.com/cosmos/ibc-go/v11/modules/core/24-host"
	hostv2 "github.com/cosmos/ibc-go/v11/modules/core/24-host/v2"

	"verif/harness/kit"
)

// ---------------------------------------------------------------------------------------------
// reference formulas (written from the ICS-04 text, independent of the code under test)

func sha(b ...[]byte) []byte {
	h := sha256.New()
	for _, x := range b {
		h.Write(x)
	}
	return h.Sum(nil)
}

func be64(x uint64) []byte {
	b := make([]byte, 8)
	binary.BigEndian.PutUint64(b, x)
	return b
}

// ModelCommitV1 = sha256(timeoutTimestamp ‖ revNumber ‖ revHeight ‖ sha256(data))
func ModelCommitV1(p channeltypes.Packet) []byte {
	return sha(be64(p.TimeoutTimestamp), be64(p.TimeoutHeight.RevisionNumber), be64(p.TimeoutHeight.RevisionHeight), sha(p.Data))
}

// ModelAckCommitV1 = sha256(ack)
func ModelAckCommitV1(ack []byte) []byte { return sha(ack) }

// ModelCommitV2 = sha256(0x02 ‖ sha256(destClient) ‖ sha256(be64(timeout)) ‖ sha256(concat_i H(payload_i)))
// with H(payload) = sha256(sha256(srcPort)‖sha256(dstPort)‖sha256(version)‖sha256(encoding)‖sha256(value))
func ModelCommitV2(p channeltypesv2.Packet) []byte {
	var app []byte
	for _, pl := range p.Payloads {
		app = append(app, sha(sha([]byte(pl.SourcePort)), sha([]byte(pl.DestinationPort)), sha([]byte(pl.Version)), sha([]byte(pl.Encoding)), sha(pl.Value))...)
	}
	return sha([]byte{2}, sha([]byte(p.DestinationClient)), sha(be64(p.TimeoutTimestamp)), sha(app))
}

// ModelAckCommitV2 = sha256(0x02 ‖ concat_i sha256(appAck_i))
func ModelAckCommitV2(a channeltypesv2.Acknowledgement) []byte {
	buf := []byte{2}
	for _, x := range a.AppAcknowledgements {
		buf = append(buf, sha(x)...)
	}
	return sha(buf)
}

// ---------------------------------------------------------------------------------------------
// key classification on the ibc store

func isV1AckKey(k []byte) bool { return bytes.HasPrefix(k, []byte("acks/ports/")) }

// v2Key splits "<id><tag><8-byte seq>" keys; tag 1 commitment, 2 receipt, 3 ack.
func v2Key(k []byte) (id string, tag byte, seq uint64, ok bool) {
	if len(k) < 10 {
		return "", 0, 0, false
	}
	t := k[len(k)-9]
	if t != 1 && t != 2 && t != 3 {
		return "", 0, 0, false
	}
	id = string(k[:len(k)-9])
	if !clienttypes.IsValidClientID(id) && !channeltypes.IsValidChannelID(id) {
		return "", 0, 0, false
	}
	return id, t, binary.BigEndian.Uint64(k[len(k)-8:]), true
}

func propOfMsg(kind string) string {
	switch kind {
	case "recv":
		return "C05"
	case "ack":
		return "C06"
	case "timeout":
		return "C04"
	case "send":
		return "C08"
	}
	return ""
}

func msgKind(m any) string {
	switch m.(type) {
	case *channeltypes.MsgRecvPacket, *channeltypesv2.MsgRecvPacket:
		return "recv"
	case *channeltypes.MsgAcknowledgement, *channeltypesv2.MsgAcknowledgement:
		return "ack"
	case *channeltypes.MsgTimeout, *channeltypes.MsgTimeoutOnClose, *channeltypesv2.MsgTimeout:
		return "timeout"
	case *transfertypes.MsgTransfer, *channeltypesv2.MsgSendPacket:
		return "send"
	}
	return ""
}

// observe runs after every delivered transaction on chain `side`.
func (s *Sim) observe(side int, o *kit.Outcome) {
	s.C.Inc("txs")
	kind := ""
	if len(o.Msgs) == 1 {
		kind = msgKind(o.Msgs[0])
	}
	m := s.cur
	hostile := m != nil && m.hostile != ""

	// (a) a rejected message changes no state
	if !o.OK() {
		if kind != "" {
			s.C.Inc("rejected_" + kind)
			if hostile {
				s.C.Inc("rejected_hostile")
			}
			if len(o.Diff) != 0 {
				s.viol(propOfMsg(kind), "rejected-"+kind+"-changed-state", "rejected %s message on chain %s changed state:%s (log %s)", kind, o.Chain, o.DiffString(), shortLog(o))
			}
			if len(o.CBs) != 0 {
				// callbacks of a failed tx are rolled back together with it; nothing to judge
				s.C.Inc("callbacks_in_failed_tx")
			}
		}
		return
	}

	// (b) NOOP responses: no state change, no callback
	res := respResult(o)
	if kind == "recv" || kind == "ack" || kind == "timeout" {
		s.C.Inc("accepted_" + kind + "_" + res)
		if res == "NOOP" {
			prop := "C01"
			if kind != "recv" {
				prop = "C03"
			}
			if len(o.Diff) != 0 {
				s.viol(prop, "noop-"+kind+"-changed-state", "NOOP %s on chain %s changed state:%s", kind, o.Chain, o.DiffString())
			}
			if len(o.CBs) != 0 {
				s.viol(prop, "noop-"+kind+"-reached-app", "NOOP %s on chain %s reached the application (%d callbacks)", kind, o.Chain, len(o.CBs))
			}
		}
	}

	// (c) callbacks
	seenRecv, seenTerm := map[*Pkt]bool{}, map[*Pkt]string{}
	for _, cb := range o.CBs {
		switch cb.Kind {
		case "recv":
			s.C.Inc("cb_recv")
			p := s.bySrc[srcKey(1-side, cb.CpID, cb.Seq)]
			s.onRecvCB(side, o, cb, p, m)
			if p != nil {
				seenRecv[p] = true
				if p.RecvResult == "" || cb.Result == "error" || (cb.Result == "async" && p.RecvResult != "error") {
					p.RecvResult = cb.Result
				}
				if !p.L.V2 && cb.Result != "async" {
					p.AckV1 = cb.Ack
				}
			}
		case "ack", "timeout":
			s.C.Inc("cb_" + cb.Kind)
			p := s.bySrc[srcKey(side, cb.ID, cb.Seq)]
			s.onTerminalCB(side, o, cb, p, m)
			if p != nil {
				seenTerm[p] = cb.Kind
			}
		}
	}
	for p := range seenRecv {
		p.RecvTxs++
		p.RecvHeight = o.Height
		if p.RecvTxs > 1 {
			s.viol("C01", "recv-callback-twice", "packet %s reached the destination application in %d transactions", p, p.RecvTxs)
		}
		if p.L.V2 {
			s.afterV2Recv(side, o, p)
		}
		// C02 ordered delivery
		if p.L.Ordered {
			k := p.L.seqDomain(side) + "|recv"
			exp := s.nextRecv[k] + 1
			if p.Seq != exp {
				s.viol("C02", "ordered-recv-out-of-sequence", "ORDERED lane %s side %d received seq %d, expected %d", p.L.Name, side, p.Seq, exp)
			}
			s.nextRecv[k] = p.Seq
			s.C.Inc("ordered_recv")
		}
		// C01/C05: an UNORDERED receive leaves its receipt behind
		s.checkReceipt(side, p)
	}
	for p, k := range seenTerm {
		p.Terminal = append(p.Terminal, k)
		if len(p.Terminal) > 1 {
			s.viol("C03", "two-terminal-outcomes", "packet %s got terminal callbacks %v", p, p.Terminal)
		}
		if k == "ack" && p.L.Ordered {
			dk := p.L.seqDomain(side) + "|ack"
			exp := s.nextAck[dk] + 1
			if p.Seq != exp {
				s.viol("C02", "ordered-ack-out-of-sequence", "ORDERED lane %s side %d acknowledged seq %d, expected %d", p.L.Name, side, p.Seq, exp)
			}
			s.nextAck[dk] = p.Seq
			s.C.Inc("ordered_ack")
		}
		if k == "timeout" && p.L.Ordered {
			p.L.ClosedByTimeout[side] = true
			s.C.Inc("ordered_timeout_closes")
		}
		// commitment must be gone
		if c := s.commitment(side, p); len(c) != 0 {
			s.viol("C03", "commitment-survives-terminal", "packet %s still has its commitment after %s", p, k)
		}
	}

	// (d) an accepted (SUCCESS) receive/ack/timeout must have reached the application
	if (kind == "recv" || kind == "ack" || kind == "timeout") && res == "SUCCESS" && len(o.CBs) == 0 {
		s.C.Inc("success_without_callback")
	}

	// (e) state-based monitors
	s.observeDiff(side, o)
	s.checkClosedLanes(side, o, kind)
}

func (s *Sim) commitment(side int, p *Pkt) []byte {
	if p.L.V2 {
		return s.Ch[side].StoreGet("ibc", hostv2.PacketCommitmentKey(p.V2.SourceClient, p.Seq))
	}
	return s.Ch[side].StoreGet("ibc", host.PacketCommitmentKey(p.V1.SourcePort, p.V1.SourceChannel, p.Seq))
}

func (s *Sim) checkReceipt(side int, p *Pkt) {
	var r []byte
	switch {
	case p.L.V2:
		r = s.Ch[side].StoreGet("ibc", hostv2.PacketReceiptKey(p.V2.DestinationClient, p.Seq))
	case p.L.Ordered:
		return
	default:
		r = s.Ch[side].StoreGet("ibc", host.PacketReceiptKey(p.V1.DestinationPort, p.V1.DestinationChannel, p.Seq))
	}
	if len(r) == 0 {
		s.viol("C01", "receive-without-receipt", "packet %s was delivered to the application but no receipt was stored", p)
	}
}

func samePacketV1(a, b channeltypes.Packet) bool {
	return a.Sequence == b.Sequence && a.SourcePort == b.SourcePort && a.SourceChannel == b.SourceChannel &&
		a.DestinationPort == b.DestinationPort && a.DestinationChannel == b.DestinationChannel &&
		bytes.Equal(a.Data, b.Data) && a.TimeoutHeight == b.TimeoutHeight && a.TimeoutTimestamp == b.TimeoutTimestamp
}

func samePacketV2(a, b channeltypesv2.Packet) bool {
	if a.Sequence != b.Sequence || a.SourceClient != b.SourceClient || a.DestinationClient != b.DestinationClient ||
		a.TimeoutTimestamp != b.TimeoutTimestamp || len(a.Payloads) != len(b.Payloads) {
		return false
	}
	for i := range a.Payloads {
		x, y := a.Payloads[i], b.Payloads[i]
		if x.SourcePort != y.SourcePort || x.DestinationPort != y.DestinationPort || x.Version != y.Version || x.Encoding != y.Encoding || !bytes.Equal(x.Value, y.Value) {
			return false
		}
	}
	return true
}

// msgPacketMatches compares the packet carried by the delivered message with the truth packet.
func msgPacketMatches(o *kit.Outcome, p *Pkt) bool {
	switch m := o.Msgs[0].(type) {
	case *channeltypes.MsgRecvPacket:
		return !p.L.V2 && samePacketV1(m.Packet, p.V1)
	case *channeltypes.MsgAcknowledgement:
		return !p.L.V2 && samePacketV1(m.Packet, p.V1)
	case *channeltypes.MsgTimeout:
		return !p.L.V2 && samePacketV1(m.Packet, p.V1)
	case *channeltypes.MsgTimeoutOnClose:
		return !p.L.V2 && samePacketV1(m.Packet, p.V1)
	case *channeltypesv2.MsgRecvPacket:
		return p.L.V2 && samePacketV2(m.Packet, p.V2)
	case *channeltypesv2.MsgAcknowledgement:
		return p.L.V2 && samePacketV2(m.Packet, p.V2)
	case *channeltypesv2.MsgTimeout:
		return p.L.V2 && samePacketV2(m.Packet, p.V2)
	}
	return false
}

func (s *Sim) onRecvCB(side int, o *kit.Outcome, cb *kit.CB, p *Pkt, m *opMeta) {
	// C05: only packets the counterparty really committed, unaltered
	if p == nil || (cb.V == 2) != p.L.V2 || len(o.Msgs) != 1 || !msgPacketMatches(o, p) {
		s.viol("C05", "received-uncommitted-or-altered-packet", "chain %s delivered to app %s/%s seq %d a packet the counterparty never committed in this form (truth: %v)", o.Chain, cb.Port, cb.ID, cb.Seq, p)
		return
	}
	s.C.Inc("recv_matches_truth")
	// the destination must itself be strictly before the timeout
	h := clienttypes.NewHeight(clienttypes.ParseChainID(s.Ch[side].ChainID), uint64(o.Height))
	if elapsedModel(p, h, o.BlockTime) {
		s.viol("C05", "received-after-timeout", "packet %s received at height %s time %s although its timeout had elapsed", p, h, o.BlockTime)
	}
	if p.terminal() {
		for _, k := range p.Terminal {
			if k == "timeout" {
				s.viol("C04", "received-and-timed-out", "packet %s received on the destination after it was timed out on the source", p)
			}
		}
	}
	if m != nil && m.gatesKnown {
		if p.L.Alias && (!m.chanOpen || !m.connOpen) {
			// IBC v2 over an alias does not consult the v1 channel end (DESIGN §6, F11): reported, not judged
			s.C.Inc("note_alias_recv_on_non_open_v1_channel")
		} else if !m.chanOpen || !m.connOpen {
			s.viol("C05", "received-on-non-open-channel", "packet %s received while channel open=%v connection open=%v", p, m.chanOpen, m.connOpen)
		}
		if !m.clientActive {
			s.viol("C05", "received-through-inactive-client", "packet %s received through a client that was not Active", p)
		}
	}
	if p.L.ClosedByTimeout[side] {
		s.viol("C14", "recv-on-timeout-closed-channel", "packet %s received on an ORDERED end closed by a timeout", p)
	}
}

func (s *Sim) afterV2Recv(side int, o *kit.Outcome, p *Pkt) {
	// truth acknowledgement for v2 = what the destination stored; reconstruct from callbacks
	var acks [][]byte
	failed, async := false, false
	for _, cb := range o.CBs {
		if cb.Kind != "recv" || cb.Seq != p.Seq || cb.ID != p.V2.DestinationClient {
			continue
		}
		switch cb.Result {
		case "error":
			failed = true
		case "async":
			async = true
		}
		acks = append(acks, cb.Ack)
	}
	switch {
	case failed:
		a := channeltypesv2.NewAcknowledgement(channeltypesv2.ErrorAcknowledgement[:])
		p.AckV2 = &a
	case async:
		p.AckV2 = nil
	default:
		a := channeltypesv2.NewAcknowledgement(acks...)
		p.AckV2 = &a
	}
}

func (s *Sim) onTerminalCB(side int, o *kit.Outcome, cb *kit.CB, p *Pkt, m *opMeta) {
	if p == nil || (cb.V == 2) != p.L.V2 || len(o.Msgs) != 1 || !msgPacketMatches(o, p) {
		prop := "C06"
		if cb.Kind == "timeout" {
			prop = "C04"
		}
		s.viol(prop, cb.Kind+"-for-uncommitted-or-altered-packet", "chain %s ran %s callback for %s/%s seq %d, a packet it never committed in this form", o.Chain, cb.Kind, cb.Port, cb.ID, cb.Seq)
		return
	}
	if cb.Kind == "ack" {
		s.C.Inc("ack_matches_truth_packet")
		// C06: the acknowledgement must be the one the destination wrote
		d := s.Ch[1-side]
		if p.L.V2 {
			msg := o.Msgs[0].(*channeltypesv2.MsgAcknowledgement)
			stored := d.StoreGet("ibc", hostv2.PacketAcknowledgementKey(p.V2.DestinationClient, p.Seq))
			if !bytes.Equal(stored, ModelAckCommitV2(msg.Acknowledgement)) {
				s.viol("C06", "ack-not-committed-by-counterparty", "packet %s acknowledged with a list the destination never committed", p)
			} else {
				s.C.Inc("ack_matches_truth_ack")
			}
			// each application must be handed the acknowledgement of its own payload
			if p.AckV2 != nil && cb.Payload != nil {
				var want []byte
				found := false
				for i, pl := range p.V2.Payloads {
					if pl.SourcePort == cb.Payload.SourcePort && pl.DestinationPort == cb.Payload.DestinationPort && bytes.Equal(pl.Value, cb.Payload.Value) {
						if len(p.AckV2.AppAcknowledgements) == len(p.V2.Payloads) {
							if !found || bytes.Equal(p.AckV2.AppAcknowledgements[i], cb.Ack) {
								want = p.AckV2.AppAcknowledgements[i]
							}
						} else {
							want = p.AckV2.AppAcknowledgements[0]
						}
						found = true
					}
				}
				if found && !bytes.Equal(want, cb.Ack) {
					s.viol("C06", "app-handed-another-payloads-ack", "packet %s: application %s was handed acknowledgement %q, its own payload was acknowledged with %q", p, cb.Port, cb.Ack, want)
				} else if found {
					s.C.Inc("v2_app_acks_matched")
				}
			}
			if p.AckV2 != nil && !sameAckV2(*p.AckV2, msg.Acknowledgement) {
				s.viol("C06", "ack-differs-from-app-acks", "packet %s acknowledged with %x, destination apps returned %x", p, msg.Acknowledgement.AppAcknowledgements, p.AckV2.AppAcknowledgements)
			}
		} else {
			msg := o.Msgs[0].(*channeltypes.MsgAcknowledgement)
			stored := d.StoreGet("ibc", host.PacketAcknowledgementKey(p.V1.DestinationPort, p.V1.DestinationChannel, p.Seq))
			if !bytes.Equal(stored, ModelAckCommitV1(msg.Acknowledgement)) || !bytes.Equal(cb.Ack, msg.Acknowledgement) {
				s.viol("C06", "ack-not-committed-by-counterparty", "packet %s acknowledged with bytes the destination never committed", p)
			} else {
				s.C.Inc("ack_matches_truth_ack")
			}
		}
		if !p.received() {
			s.viol("C06", "ack-of-unreceived-packet", "packet %s acknowledged although it was never received", p)
		}
	} else {
		s.C.Inc("timeout_cb_checked")
		if p.received() {
			s.viol("C04", "received-and-timed-out", "packet %s timed out on the source although the destination received it (height %d)", p, p.RecvHeight)
		}
		// never early: destination's consensus (as stored for the proof height) must have reached the timeout
		s.checkTimeoutNotEarly(side, o, p)
	}
	if p.L.ClosedByTimeout[side] && cb.Kind == "ack" {
		s.viol("C14", "ack-on-timeout-closed-channel", "packet %s acknowledged on an ORDERED end closed by a timeout", p)
	}
}

func sameAckV2(a, b channeltypesv2.Acknowledgement) bool {
	if len(a.AppAcknowledgements) != len(b.AppAcknowledgements) {
		return false
	}
	for i := range a.AppAcknowledgements {
		if !bytes.Equal(a.AppAcknowledgements[i], b.AppAcknowledgements[i]) {
			return false
		}
	}
	return true
}

// checkTimeoutNotEarly: ground truth = the destination chain's own header at the proof height.
func (s *Sim) checkTimeoutNotEarly(side int, o *kit.Outcome, p *Pkt) {
	var ph clienttypes.Height
	switch m := o.Msgs[0].(type) {
	case *channeltypes.MsgTimeout:
		ph = m.ProofHeight
	case *channeltypes.MsgTimeoutOnClose:
		return // closure, not expiry, justifies this one
	case *channeltypesv2.MsgTimeout:
		ph = m.ProofHeight
	}
	d := s.Ch[1-side]
	t, ok := s.headerTime(d, int64(ph.RevisionHeight))
	if !ok {
		s.C.Inc("timeout_truth_unavailable")
		return
	}
	if !elapsedModel(p, ph, t) {
		s.viol("C04", "timeout-before-destination-reached-it", "packet %s timed out with proof height %s (destination time %s) before its timeout (h=%s ts=%d/%d)", p, ph, t, p.V1.TimeoutHeight, p.V1.TimeoutTimestamp, p.V2.TimeoutTimestamp)
	} else {
		s.C.Inc("timeout_truth_elapsed")
	}
}

// observeSend checks C08 for keeper-level (mock) sends; message sends go through observeDiff too.
func (s *Sim) observeSend(side int, o *kit.Outcome, l *Lane, seq uint64) {
	if !o.OK() {
		if len(o.Diff) != 0 {
			s.viol("C08", "rejected-send-changed-state", "rejected send on %s changed state:%s", l.Name, o.DiffString())
		}
		s.C.Inc("rejected_send")
		return
	}
	s.checkSendShape(side, o, l.id(side), seq, l.port(side), false)
}

// checkSendShape: consecutive sequence per source id, exactly one commitment + the counter in the ibc store.
func (s *Sim) checkSendShape(side int, o *kit.Outcome, id string, seq uint64, port string, v2 bool) {
	dom := fmt.Sprintf("%d|%s", side, id)
	exp := s.lastSeq[dom] + 1
	if seq != exp {
		s.viol("C08", "non-consecutive-send-sequence", "send on %s side %d got sequence %d, expected %d", id, side, seq, exp)
	}
	s.lastSeq[dom] = seq
	s.C.Inc("sends_checked")
	var wantCommit []byte
	if v2 {
		wantCommit = hostv2.PacketCommitmentKey(id, seq)
	} else {
		wantCommit = host.PacketCommitmentKey(port, id, seq)
	}
	wantCounter := hostv2.NextSequenceSendKey(id)
	gotCommit, gotCounter := false, false
	for _, kv := range o.DiffIn("ibc") {
		switch {
		case bytes.Equal(kv.Key, wantCommit):
			gotCommit = kv.Old == nil && len(kv.New) > 0
		case bytes.Equal(kv.Key, wantCounter):
			gotCounter = len(kv.New) == 8 && binary.BigEndian.Uint64(kv.New) == seq+1
		default:
			s.viol("C08", "send-wrote-extra-core-key", "send seq %d on %s wrote unexpected ibc key %q", seq, id, kv.Key)
		}
	}
	if !gotCommit || !gotCounter {
		s.viol("C08", "send-missing-commitment-or-counter", "send seq %d on %s: commitment written=%v counter advanced=%v diff:%s", seq, id, gotCommit, gotCounter, o.DiffString())
	}
}

// observeDiff: monitors that look at raw state changes.
func (s *Sim) observeDiff(side int, o *kit.Outcome) {
	if o == nil {
		return
	}
	// sends delivered as messages
	if o.OK() && len(o.Msgs) == 1 {
		switch m := o.Msgs[0].(type) {
		case *transfertypes.MsgTransfer:
			var resp transfertypes.MsgTransferResponse
			if err := unmarshalResp(o, 0, &resp); err == nil {
				s.checkSendShape(side, o, m.SourceChannel, resp.Sequence, m.SourcePort, false)
				s.checkSendGuards(side, o, m.SourcePort, m.SourceChannel, false)
			}
		case *channeltypesv2.MsgSendPacket:
			var resp channeltypesv2.MsgSendPacketResponse
			if err := unmarshalResp(o, 0, &resp); err == nil {
				s.checkSendShape(side, o, m.SourceClient, resp.Sequence, "", true)
				s.checkV2SendGuards(side, o, m)
			}
		}
	}
	// C11: acknowledgements are written once and never change
	for _, kv := range o.DiffIn("ibc") {
		isAck := isV1AckKey(kv.Key)
		var id string
		var seq uint64
		if !isAck {
			var tag byte
			var ok bool
			id, tag, seq, ok = v2Key(kv.Key)
			isAck = ok && tag == 3
			if isAck {
				// v2: an acknowledgement requires a receipt
				if len(s.Ch[side].StoreGet("ibc", hostv2.PacketReceiptKey(id, seq))) == 0 {
					s.viol("C11", "v2-ack-without-receipt", "acknowledgement written for %s seq %d without a receipt", id, seq)
				}
			}
		}
		if !isAck {
			continue
		}
		s.C.Inc("ack_writes_seen")
		if kv.Old != nil {
			s.viol("C11", "acknowledgement-changed", "acknowledgement key %q changed from %x to %x", kv.Key, kv.Old, kv.New)
		}
		if prev, ok := s.ackKeys[side][string(kv.Key)]; ok && !bytes.Equal(prev, kv.New) {
			s.viol("C11", "acknowledgement-rewritten", "acknowledgement key %q rewritten", kv.Key)
		}
		s.ackKeys[side][string(kv.Key)] = kv.New
	}
}

func (s *Sim) laneOf(side int, id string, v2 bool) *Lane {
	for _, l := range s.Lanes {
		if l.V2 == v2 && l.id(side) == id {
			return l
		}
	}
	return nil
}

// checkSendGuards (v1 message sends): success ⇒ channel OPEN, client Active (pre-state read by the workload).
func (s *Sim) checkSendGuards(side int, o *kit.Outcome, port, channel string, v2 bool) {
	l := s.laneOf(side, channel, false)
	if l == nil {
		return
	}
	if l.ClosedByTimeout[side] || l.ClosedByUs[side] {
		s.viol("C08", "send-on-closed-channel", "send accepted on closed channel %s side %d", channel, side)
		if l.ClosedByTimeout[side] {
			s.viol("C14", "send-on-timeout-closed-channel", "send accepted on ORDERED end closed by a timeout (%s side %d)", channel, side)
		}
	}
}

func (s *Sim) checkV2SendGuards(side int, o *kit.Outcome, m *channeltypesv2.MsgSendPacket) {
	bt := uint64(o.BlockTime.Unix())
	// timeout strictly after block time (nanosecond clock), at most 24h ahead
	if !(int64(m.TimeoutTimestamp) > o.BlockTime.Unix() || (int64(m.TimeoutTimestamp) == o.BlockTime.Unix() && false)) {
		s.viol("C08", "v2-send-with-elapsed-timeout", "v2 send accepted with timeout %d at block time %d", m.TimeoutTimestamp, bt)
	}
	if m.TimeoutTimestamp > bt+24*3600 {
		s.viol("C08", "v2-send-timeout-too-far", "v2 send accepted with timeout %d more than 24h after block time %d", m.TimeoutTimestamp, bt)
	}
}

// checkClosedLanes (C14): an ORDERED end closed by a timeout stays CLOSED.
func (s *Sim) checkClosedLanes(side int, o *kit.Outcome, kind string) {
	for _, l := range s.Lanes {
		if !l.Ordered || !l.ClosedByTimeout[side] {
			continue
		}
		ch := s.Ch[side]
		c, ok := ch.App.GetIBCKeeper().ChannelKeeper.GetChannel(ch.GetContext(), l.port(side), l.id(side))
		s.C.Inc("closed_state_checks")
		if !ok || c.State != channeltypes.CLOSED {
			s.viol("C14", "timeout-closed-channel-not-closed", "ORDERED lane %s side %d is %v after a timeout", l.Name, side, c.State)
		}
	}
}

// headerTime returns the destination chain's real block time at a height (staking historical info).
func (s *Sim) headerTime(c *kit.Chain, h int64) (t timeT, ok bool) {
	hi, err := c.Sim.StakingKeeper.GetHistoricalInfo(c.GetContext(), h)
	if err != nil {
		return t, false
	}
	return hi.Header.Time, true
}

var (
	_ = proto.Marshal
	_ = strings.Contains
)
