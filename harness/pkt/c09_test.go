package pkt

import (
	"bytes"
	"context"
	"errors"
	"fmt"
	"strings"
	"testing"

	sdkmath "cosmossdk.io/math"

	sdk "github.com/cosmos/cosmos-sdk/types"
	authtypes "github.com/cosmos/cosmos-sdk/x/auth/types"

	transfertypes "github.com/cosmos/ibc-go/v11/modules/apps/transfer/types"
	clienttypes "github.com/cosmos/ibc-go/v11/modules/core/02-client/types"
	channeltypes "github.com/cosmos/ibc-go/v11/modules/core/04-channel/types"
	host "github.com/cosmos/ibc-go/v11/modules/core/24-host"
	"github.com/cosmos/ibc-go/v11/modules/core/exported"
	ibctesting "github.com/cosmos/ibc-go/v11/testing"
	ibcmock "github.com/cosmos/ibc-go/v11/testing/mock"

	"verif/harness/kit"
)

// c09MockApp: behaviour encoded in the packet data "<beh>:<k>:<bank>:<tag>"
//
//	S success, E error at once, WE write k keys (+ optional bank send) then error, A async (after writing)
func c09MockApp(ch *kit.Chain) func(ctx sdk.Context, channelVersion string, packet channeltypes.Packet, relayer sdk.AccAddress) exported.Acknowledgement {
	return func(ctx sdk.Context, channelVersion string, packet channeltypes.Packet, relayer sdk.AccAddress) exported.Acknowledgement {
		parts := strings.SplitN(string(packet.Data), ":", 4)
		if len(parts) != 4 {
			return ibcmock.MockFailAcknowledgement
		}
		k := 0
		fmt.Sscanf(parts[1], "%d", &k)
		write := func() {
			st := ctx.KVStore(ch.Sim.GetKey(c10Store))
			for i := 0; i < k; i++ {
				st.Set([]byte(fmt.Sprintf("c09/%s/%d/%s/%d", packet.DestinationChannel, packet.Sequence, parts[3], i)), packet.Data)
			}
			if parts[2] == "1" {
				_ = ch.Sim.BankKeeper.SendCoins(ctx, ch.Addr(6), ch.Addr(7), sdk.NewCoins(sdk.NewCoin(sdk.DefaultBondDenom, sdkmath.NewInt(3))))
			}
		}
		switch parts[0] {
		case "S":
			write()
			return ibcmock.MockAcknowledgement
		case "WE":
			write()
			return ibcmock.MockFailAcknowledgement
		case "WAE":
			// writes state, writes an acknowledgement for this packet through the channel keeper (what an application reaches as
			// its ICS4 wrapper), then fails: everything it wrote, the acknowledgement included, belongs to the discarded branch
			write()
			_ = ch.App.GetIBCKeeper().ChannelKeeper.WriteAcknowledgement(ctx, packet, ibcmock.MockAcknowledgement)
			return ibcmock.MockFailAcknowledgement
		case "A":
			write()
			return nil
		}
		return ibcmock.MockFailAcknowledgement
	}
}

// TestC09 enumerates the receive-side fault matrix for IBC v1: application (mock with injected behaviour, real
// transfer stack with every receive-side failure reason) x channel ordering x {error, success, async}, and checks on
// the exact state diff that a failed receive keeps only the receipt (or ordered counter) and the error acknowledgement.
func TestC09(t *testing.T) {
	c := kit.NewCheck(t, "C09", "fault_enumeration",
		"fault matrix = {mock app: success / error at once / write k=0..4 keys (+bank send) then error / write keys and an acknowledgement of its own then error / write then async} x {UNORDERED, ORDERED} plus the transfer stack (rate-limit → forward → transfer) with {success, undecodable receiver, blocked receiver, receive disabled, bank send-restriction failing after the voucher mint, unparsable amount}; "+
			"one evaluation = send + receive with the oracle on the exact per-block state diff; distinct = distinct matrix cells; repeated with several amounts of pre-failure state")
	defer c.Finish()
	c.Assume("mock application of testing/simapp with injected OnRecvPacket; transfer stack as wired in testing/simapp; proof verification trusted")
	c.Floor("error_ack_receives", 60)
	c.Floor("success_receives", 20)
	c.Floor("async_receives", 10)
	c.Floor("transfer_failures", 12)
	r := c.CaseRng(0)
	c.Exhaustive = true

	w := kit.NewWorld(t, 2)
	a, b := w.Chains[0], w.Chains[1]
	b.Sim.IBCMockModule.IBCApp.OnRecvPacket = c09MockApp(b)
	pu := ibctesting.NewPath(a.TestChain, b.TestChain)
	pu.Setup()
	po := ibctesting.NewPath(a.TestChain, b.TestChain)
	po.SetChannelOrdered()
	po.Setup()
	pt := ibctesting.NewTransferPath(a.TestChain, b.TestChain)
	pt.Setup()
	poison := sdk.AccAddress(bytes.Repeat([]byte{0x66}, 20))
	b.Sim.BankKeeper.AppendSendRestriction(func(ctx context.Context, from, to sdk.AccAddress, amt sdk.Coins) (sdk.AccAddress, error) {
		if to.Equals(poison) {
			return nil, errors.New("injected bank failure after mint")
		}
		return to, nil
	})

	reps := c.N(4, 10)
	tag := 0
	th := clienttypes.NewHeight(1, 1000000)
	// ---- mock matrix
	for rep := 0; rep < reps; rep++ {
		for _, p := range []*ibctesting.Path{pu, po} {
			for _, beh := range []string{"S", "E", "WE", "WAE", "A"} {
				for k := 0; k <= 4; k++ {
					if (beh == "E") && k > 0 {
						continue
					}
					bank := "0"
					if k%2 == 1 {
						bank = "1"
					}
					tag++
					data := []byte(fmt.Sprintf("%s:%d:%s:%d", beh, k, bank, tag))
					cell := fmt.Sprintf("mock|%s|%s|k=%d|bank=%s", p.EndpointA.ChannelConfig.Order, beh, k, bank)
					c.SetCase(cell)
					if c.OnlyCase != "" && c.OnlyCase != cell {
						continue
					}
					err := kit.Try(func() {
						var seq uint64
						so := a.InBlock(func(ctx sdk.Context) error {
							var e error
							seq, e = a.App.GetIBCKeeper().ChannelKeeper.SendPacket(ctx, p.EndpointA.ChannelConfig.PortID, p.EndpointA.ChannelID, th, 0, data)
							return e
						})
						if !so.OK() {
							panic(kit.Abort{Msg: "send failed " + so.Log})
						}
						pk := channeltypes.NewPacket(data, seq, p.EndpointA.ChannelConfig.PortID, p.EndpointA.ChannelID, p.EndpointB.ChannelConfig.PortID, p.EndpointB.ChannelID, th, 0)
						ro := c09Recv(a, b, p, pk)
						expKeys := k
						c09Judge(c, b, cell, ro, pk, p.EndpointB.ChannelConfig.Order == channeltypes.ORDERED, beh, expKeys, bank == "1", ibcmock.MockFailAcknowledgement.Acknowledgement(), ibcmock.MockAcknowledgement.Acknowledgement())
					})
					if err != nil {
						c.Inconcl(err.Error())
						continue
					}
					c.Eval(cell)
				}
			}
		}
	}
	// ---- transfer stack
	type tcase struct {
		name     string
		receiver string
		amount   string
		pre      func()
		post     func()
		fail     bool
	}
	setRecv := func(on bool) func() {
		return func() {
			b.InBlock(func(ctx sdk.Context) error {
				b.Sim.TransferKeeper.SetParams(ctx, transfertypes.NewParams(true, on))
				return nil
			})
		}
	}
	cases := []tcase{
		{name: "success", receiver: b.Addr(2).String()},
		{name: "undecodable-receiver", receiver: "not-an-address", fail: true},
		{name: "blocked-receiver", receiver: authtypes.NewModuleAddress("distribution").String(), fail: true},
		{name: "receive-disabled", receiver: b.Addr(2).String(), pre: setRecv(false), post: setRecv(true), fail: true},
		{name: "bank-fails-after-mint", receiver: poison.String(), fail: true},
	}
	for rep := 0; rep < reps*3; rep++ {
		for _, tc := range cases {
			cell := "transfer|" + tc.name
			c.SetCase(cell)
			if c.OnlyCase != "" && c.OnlyCase != cell {
				continue
			}
			err := kit.Try(func() {
				amt := int64(1 + r.Intn(50))
				msg := transfertypes.NewMsgTransfer("transfer", pt.EndpointA.ChannelID, sdk.NewCoin(sdk.DefaultBondDenom, sdkmath.NewInt(amt)), a.Addr(0).String(), tc.receiver, th, 0, "")
				so := a.Deliver(a.Acct(0), msg)
				if !so.OK() {
					panic(kit.Abort{Msg: "transfer send failed " + so.Log})
				}
				pk, err := ibctesting.ParseV1PacketFromEvents(so.Res.Events)
				if err != nil {
					panic(kit.Abort{Msg: err.Error()})
				}
				if tc.pre != nil {
					tc.pre()
				}
				ro := c09Recv(a, b, pt, pk)
				if tc.post != nil {
					tc.post()
				}
				if !ro.OK() {
					c.Violate("C09|transfer-receive-tx-failed|"+tc.name, fmt.Sprintf("%s: receive tx failed instead of writing an acknowledgement: %s", tc.name, clipS(ro.Log)), nil)
					return
				}
				app, core := splitDiff(ro.Diff)
				ackKey := host.PacketAcknowledgementKey(pk.DestinationPort, pk.DestinationChannel, pk.Sequence)
				rcKey := host.PacketReceiptKey(pk.DestinationPort, pk.DestinationChannel, pk.Sequence)
				if len(b.StoreGet("ibc", ackKey)) == 0 || len(b.StoreGet("ibc", rcKey)) == 0 {
					c.Violate("C09|receipt-or-ack-missing|transfer|"+tc.name, fmt.Sprintf("%s: receipt or acknowledgement missing after receive", tc.name), nil)
				}
				for _, kv := range core {
					if !bytes.Equal(kv.Key, ackKey) && !bytes.Equal(kv.Key, rcKey) {
						c.Violate("C09|unexpected-core-write|transfer", fmt.Sprintf("%s: unexpected ibc key %q", tc.name, kv.Key), nil)
					}
				}
				if tc.fail {
					c.Inc("transfer_failures")
					c.Inc("error_ack_receives")
					if len(app) != 0 {
						c.Violate("C09|app-state-persisted-after-error-ack|transfer|"+tc.name, fmt.Sprintf("%s: state outside core changed although the receive ended in an error acknowledgement:%s", tc.name, diffS(app)), nil)
					}
					if bytes.Equal(b.StoreGet("ibc", ackKey), ModelAckCommitV1(channeltypes.NewResultAcknowledgement([]byte{1}).Acknowledgement())) {
						c.Violate("C09|success-ack-for-failed-receive|transfer|"+tc.name, tc.name+": success acknowledgement written for a failing receive", nil)
					}
				} else {
					c.Inc("success_receives")
					if len(app) == 0 {
						c.Violate("C09|app-state-missing-after-success|transfer", "successful transfer receive changed nothing outside core", nil)
					}
				}
			})
			if err != nil {
				c.Inconcl(err.Error())
				continue
			}
			c.Eval(fmt.Sprintf("%s|rep%d", cell, rep%2))
		}
	}
	c.Sample(map[string]any{"mock_cells": "mock|<order>|<S,E,WE,A>|k=0..4|bank=0/1", "transfer_cells": []string{"success", "undecodable-receiver", "blocked-receiver", "receive-disabled", "bank-fails-after-mint"}})
}

func c09Recv(a, b *kit.Chain, p *ibctesting.Path, pk channeltypes.Packet) *kit.Outcome {
	if err := p.EndpointB.UpdateClient(); err != nil {
		panic(kit.Abort{Msg: err.Error()})
	}
	proof, ph := a.QueryProof(host.PacketCommitmentKey(pk.SourcePort, pk.SourceChannel, pk.Sequence))
	rel := b.Acct(4)
	return b.Deliver(rel, channeltypes.NewMsgRecvPacket(pk, proof, ph, rel.SenderAccount.GetAddress().String()))
}

func splitDiff(d []kit.KV) (app, core []kit.KV) {
	for _, kv := range d {
		if kv.Store == "ibc" {
			core = append(core, kv)
		} else {
			app = append(app, kv)
		}
	}
	return
}

func c09Judge(c *kit.Check, b *kit.Chain, cell string, ro *kit.Outcome, pk channeltypes.Packet, ordered bool, beh string, keys int, bank bool, errAck, okAck []byte) {
	if !ro.OK() {
		c.Violate("C09|receive-tx-failed", fmt.Sprintf("%s: receive tx failed: %s", cell, clipS(ro.Log)), nil)
		return
	}
	app, core := splitDiff(ro.Diff)
	ackKey := host.PacketAcknowledgementKey(pk.DestinationPort, pk.DestinationChannel, pk.Sequence)
	marker := host.PacketReceiptKey(pk.DestinationPort, pk.DestinationChannel, pk.Sequence)
	if ordered {
		marker = host.NextSequenceRecvKey(pk.DestinationPort, pk.DestinationChannel)
	}
	sawMarker := false
	for _, kv := range core {
		switch {
		case bytes.Equal(kv.Key, marker):
			sawMarker = true
		case bytes.Equal(kv.Key, ackKey):
		default:
			c.Violate("C09|unexpected-core-write", fmt.Sprintf("%s: unexpected ibc key %q", cell, kv.Key), nil)
		}
	}
	if !sawMarker {
		c.Violate("C09|receipt-or-counter-not-written", fmt.Sprintf("%s: the receipt / ordered receive counter was not written", cell), nil)
	}
	stored := b.StoreGet("ibc", ackKey)
	nApp := 0
	bankTouched := false
	for _, kv := range app {
		if kv.Store == c10Store {
			nApp++
		}
		if kv.Store == "bank" {
			bankTouched = true
		}
	}
	switch beh {
	case "E", "WE", "WAE":
		c.Inc("error_ack_receives")
		if len(app) != 0 {
			c.Violate("C09|app-state-persisted-after-error-ack", fmt.Sprintf("%s: application state persisted after an error acknowledgement:%s", cell, diffS(app)), nil)
		}
		if !bytes.Equal(stored, ModelAckCommitV1(errAck)) {
			c.Violate("C09|error-ack-not-written", fmt.Sprintf("%s: stored acknowledgement %x is not the commitment of the application's error acknowledgement", cell, stored), nil)
		}
	case "S":
		c.Inc("success_receives")
		if nApp != keys || bankTouched != bank {
			c.Violate("C09|app-state-missing-after-success", fmt.Sprintf("%s: %d application keys persisted (bank touched %v), expected %d (%v)", cell, nApp, bankTouched, keys, bank), nil)
		}
		if !bytes.Equal(stored, ModelAckCommitV1(okAck)) {
			c.Violate("C09|success-ack-not-written", fmt.Sprintf("%s: stored acknowledgement %x differs from the success acknowledgement commitment", cell, stored), nil)
		}
	case "A":
		c.Inc("async_receives")
		if nApp != keys || bankTouched != bank {
			c.Violate("C09|app-state-missing-after-async", fmt.Sprintf("%s: %d application keys persisted (bank touched %v), expected %d (%v)", cell, nApp, bankTouched, keys, bank), nil)
		}
		if len(stored) != 0 {
			c.Violate("C09|ack-written-for-async", cell+": acknowledgement written although the application answered asynchronously", nil)
		}
	}
}
