// Package pkt drives hostile relay histories over real chains and monitors the packet-lifecycle
// properties C01–C06, C08–C11 and C14.
package pkt

import (
	"bytes"
	"fmt"
	"time"

	"github.com/cosmos/gogoproto/proto"

	sdkmath "cosmossdk.io/math"

	sdk "github.com/cosmos/cosmos-sdk/types"

	transfertypes "github.com/cosmos/ibc-go/v11/modules/apps/transfer/types"
	clienttypes "github.com/cosmos/ibc-go/v11/modules/core/02-client/types"
	channeltypes "github.com/cosmos/ibc-go/v11/modules/core/04-channel/types"
	channeltypesv2 "github.com/cosmos/ibc-go/v11/modules/core/04-channel/v2/types"
	host "github.com/cosmos/ibc-go/v11/modules/core/24-host"
	hostv2 "github.com/cosmos/ibc-go/v11/modules/core/24-host/v2"
	"github.com/cosmos/ibc-go/v11/modules/core/exported"
	ibctesting "github.com/cosmos/ibc-go/v11/testing"
	ibcmock "github.com/cosmos/ibc-go/v11/testing/mock"
	mockv2 "github.com/cosmos/ibc-go/v11/testing/mock/v2"

	"verif/harness/kit"
)

// Lane is one way packets can travel between chain A (side 0) and chain B (side 1).
type Lane struct {
	Name     string
	P        *ibctesting.Path
	V2       bool // messages are IBC v2 (client pair, or alias over a v1 channel)
	Alias    bool // IBC v2 over the alias of the v1 channel of P
	Ordered  bool
	Transfer bool
	// harness knowledge
	ClosedByTimeout [2]bool // an ORDERED end was closed by a timeout callback (monitor C14)
	ClosedByUs      [2]bool // the workload closed this end with ChanCloseInit/Confirm
}

func (l *Lane) ep(side int) *ibctesting.Endpoint {
	if side == 0 {
		return l.P.EndpointA
	}
	return l.P.EndpointB
}

// id is the identifier packets carry for this side: channel id (v1, alias) or client id (v2).
func (l *Lane) id(side int) string {
	if l.V2 && !l.Alias {
		return l.ep(side).ClientID
	}
	return l.ep(side).ChannelID
}

func (l *Lane) port(side int) string { return l.ep(side).ChannelConfig.PortID }

// seqDomain names the send-sequence counter the lane uses on a side (v1 and alias share one).
func (l *Lane) seqDomain(side int) string { return fmt.Sprintf("%d|%s", side, l.id(side)) }

// Pkt is the ground truth about one packet that was really sent.
type Pkt struct {
	L     *Lane
	Src   int
	Seq   uint64
	V1    channeltypes.Packet
	V2    channeltypesv2.Packet
	SentH int64

	RecvTxs    int    // transactions with a persisted receive callback
	RecvResult string // success | error | async (v2: aggregated)
	RecvHeight int64
	AckV1      []byte                          // truth acknowledgement bytes (v1)
	AckV2      *channeltypesv2.Acknowledgement // truth acknowledgement (v2)
	Terminal   []string                        // ack / timeout callbacks observed on the sender (one entry per tx)
}

func (p *Pkt) dst() int { return 1 - p.Src }
func (p *Pkt) String() string {
	return fmt.Sprintf("%s/%d→%d#%d", p.L.Name, p.Src, p.dst(), p.Seq)
}

func (p *Pkt) received() bool { return p.RecvTxs > 0 }
func (p *Pkt) terminal() bool { return len(p.Terminal) > 0 }

// Sim is one world + the truth log + monitors.
type Sim struct {
	C     *kit.Check
	W     *kit.World
	Ch    [2]*kit.Chain
	R     *kit.Rng
	Lanes []*Lane
	Pkts  []*Pkt
	Focus string

	bySrc   map[string]*Pkt // "<side>|<srcID>|<seq>"
	lastSeq map[string]uint64
	hist    [2][]sdk.Msg
	trace   []string
	cur     *opMeta
	// ordered bookkeeping: next expected receive / ack sequence per lane and side
	nextRecv map[string]uint64
	nextAck  map[string]uint64
	// C11: ack keys seen
	ackKeys   [2]map[string][]byte
	otherViol int
	forceTH   *clienttypes.Height
	forceTT   *uint64
}

type opMeta struct {
	kind    string // recv | ack | timeout | send | other
	hostile string // "" for honest messages, otherwise the mutation / replay label
	pkt     *Pkt
	side    int
	// pre-state gates captured just before delivery (receive side)
	chanOpen, connOpen, clientActive bool
	gatesKnown                       bool
	selfHeight                       clienttypes.Height
	selfTime                         time.Time
}

type SimOpts struct {
	Ordered, Unordered, Transfer, V2, Alias bool
	// DesyncClientIDs creates one extra client on chain A first, so that the two chains do not hand out identical client ids
	DesyncClientIDs bool
	// RecordABCI records every block of every chain (kit.Chain.ABCI) so that the history can be replayed elsewhere
	RecordABCI bool
	// SameChannelIDs keeps ibctesting from bumping the channel sequence through the keeper (a state change that is
	// not a transaction); both chains then hand out identical channel ids
	SameChannelIDs bool
}

func AllLanes() SimOpts {
	return SimOpts{Ordered: true, Unordered: true, Transfer: true, V2: true, Alias: true}
}

// NewSim builds two chains and the requested lanes.
func NewSim(c *kit.Check, r *kit.Rng, o SimOpts) *Sim {
	w := kit.NewWorldOpts(c.T, 2, kit.WorldOpts{RecordABCI: o.RecordABCI})
	s := &Sim{C: c, W: w, R: r, Focus: c.Prop, bySrc: map[string]*Pkt{}, lastSeq: map[string]uint64{},
		nextRecv: map[string]uint64{}, nextAck: map[string]uint64{}}
	s.Ch[0], s.Ch[1] = w.Chains[0], w.Chains[1]
	s.ackKeys[0], s.ackKeys[1] = map[string][]byte{}, map[string][]byte{}
	a, b := s.Ch[0].TestChain, s.Ch[1].TestChain
	if o.DesyncClientIDs {
		if err := ibctesting.NewPath(a, b).EndpointA.CreateClient(); err != nil {
			panic(kit.Abort{Msg: err.Error()})
		}
	}
	if o.Unordered {
		p := ibctesting.NewPath(a, b)
		p.Setup()
		s.Lanes = append(s.Lanes, &Lane{Name: "U", P: p})
		if o.Alias {
			s.Lanes = append(s.Lanes, &Lane{Name: "UA", P: p, V2: true, Alias: true})
		}
	}
	if o.Ordered {
		p := ibctesting.NewPath(a, b)
		p.SetChannelOrdered()
		p.Setup()
		s.Lanes = append(s.Lanes, &Lane{Name: "O", P: p, Ordered: true})
	}
	if o.Transfer {
		p := ibctesting.NewTransferPath(a, b)
		if o.SameChannelIDs {
			p.DisableUniqueChannelIDs()
		}
		p.Setup()
		s.Lanes = append(s.Lanes, &Lane{Name: "T", P: p, Transfer: true})
		if o.Alias {
			s.Lanes = append(s.Lanes, &Lane{Name: "TA", P: p, V2: true, Alias: true, Transfer: true})
		}
	}
	if o.V2 {
		p := ibctesting.NewPath(a, b)
		p.SetupV2()
		s.Lanes = append(s.Lanes, &Lane{Name: "V", P: p, V2: true})
	}
	for i := 0; i < 2; i++ {
		ch := s.Ch[i]
		ch.OnTx = func(o *kit.Outcome) { s.observe(ch.Idx, o) }
		// the two mock v2 applications answer with different, sequence-dependent acknowledgements, so that the
		// order and identity of app acknowledgements in a multi-payload packet is observable
		ch.Sim.MockModuleV2A.IBCApp.OnRecvPacket = distinctAckApp("aa-app-A")
		ch.Sim.MockModuleV2B.IBCApp.OnRecvPacket = distinctAckApp("zz-app-B")
		// the v1 mock application answers every third packet with an acknowledgement in its own format (raw bytes instead of
		// the standard JSON envelope), which ICS-04 allows
		ch.Sim.IBCMockModule.IBCApp.OnRecvPacket = rawAckApp
	}
	return s
}

// rawAck is a successful acknowledgement in an application-specific encoding.
type rawAck struct{ bz []byte }

func (a rawAck) Success() bool           { return true }
func (a rawAck) Acknowledgement() []byte { return a.bz }

func rawAckApp(ctx sdk.Context, channelVersion string, packet channeltypes.Packet, relayer sdk.AccAddress) exported.Acknowledgement {
	ctx.EventManager().EmitEvent(ibcmock.NewMockRecvPacketEvent())
	switch {
	case bytes.Equal(ibcmock.MockPacketData, packet.GetData()):
		if packet.Sequence%3 == 2 {
			return rawAck{[]byte(fmt.Sprintf("raw-ack\x00\xff/%s/%d", packet.DestinationChannel, packet.Sequence))}
		}
		return ibcmock.MockAcknowledgement
	case bytes.Equal(ibcmock.MockAsyncPacketData, packet.GetData()):
		return nil
	}
	return ibcmock.MockFailAcknowledgement
}

func distinctAckApp(tag string) func(ctx sdk.Context, src, dst string, seq uint64, payload channeltypesv2.Payload, relayer sdk.AccAddress) channeltypesv2.RecvPacketResult {
	return func(ctx sdk.Context, src, dst string, seq uint64, payload channeltypesv2.Payload, relayer sdk.AccAddress) channeltypesv2.RecvPacketResult {
		switch {
		case bytes.Equal(payload.Value, ibcmock.MockPacketData):
			return channeltypesv2.RecvPacketResult{Status: channeltypesv2.PacketStatus_Success, Acknowledgement: []byte(fmt.Sprintf("%s-ack-%d", tag, 9-seq%7))}
		case bytes.Equal(payload.Value, ibcmock.MockAsyncPacketData):
			return channeltypesv2.RecvPacketResult{Status: channeltypesv2.PacketStatus_Async}
		}
		return channeltypesv2.RecvPacketResult{Status: channeltypesv2.PacketStatus_Failure}
	}
}

func (s *Sim) log(format string, args ...any) {
	if len(s.trace) < 400 {
		s.trace = append(s.trace, fmt.Sprintf(format, args...))
	}
}

// viol records a violation of property prop; only the focus property's violations fail this check.
func (s *Sim) viol(prop, sig, format string, args ...any) {
	what := fmt.Sprintf(format, args...)
	if prop == s.Focus {
		tail := s.trace
		if len(tail) > 40 {
			tail = tail[len(tail)-40:]
		}
		s.C.Violate(sig, what, map[string]any{"trace_tail": tail})
	} else {
		s.otherViol++
		s.C.Inc("other_property_violations_" + prop)
		s.C.T.Logf("(not judged here) %s %s: %s", prop, sig, what)
	}
}

func (s *Sim) signer(side int) ibctesting.SenderAccount { return s.Ch[side].Acct(1 + s.R.Intn(8)) }

func srcKey(side int, id string, seq uint64) string { return fmt.Sprintf("%d|%s|%d", side, id, seq) }

// ---------------------------------------------------------------------------------------------
// sending

type sendSpec struct {
	data      string // ok | fail | async
	thHeight  uint64 // v1 timeout height (0 = none), relative values resolved by caller
	thTime    uint64 // v1 timeout timestamp ns / v2 timeout seconds
	nPayloads int
}

func mockData(kind string) []byte {
	switch kind {
	case "ok":
		return ibcmock.MockPacketData
	case "async":
		return ibcmock.MockAsyncPacketData
	default:
		return ibcmock.MockFailPacketData
	}
}

// chooseTimeout picks a timeout relative to the destination chain's clock.
// soon=true makes it expire within a few blocks.
func (s *Sim) chooseTimeout(l *Lane, src int, soon bool) (clienttypes.Height, uint64) {
	if s.forceTH != nil && s.forceTT != nil {
		return *s.forceTH, *s.forceTT
	}
	dst := s.Ch[1-src]
	dh := uint64(dst.App.LastBlockHeight())
	now := s.W.Coord.CurrentTime
	rev := clienttypes.ParseChainID(dst.ChainID)
	if l.V2 {
		secs := uint64(now.Unix())
		if soon {
			return clienttypes.ZeroHeight(), secs + 5*uint64(4+s.R.Intn(8)) // on the 5 s block-time grid, so that equality with a block time is reachable
		}
		return clienttypes.ZeroHeight(), secs + 3600*uint64(1+s.R.Intn(20))
	}
	switch s.R.Intn(3) {
	case 0: // height only
		if soon {
			return clienttypes.NewHeight(rev, dh+uint64(3+s.R.Intn(5))), 0
		}
		return clienttypes.NewHeight(rev, dh+100000), 0
	case 1: // time only
		if soon {
			return clienttypes.ZeroHeight(), uint64(now.Add(time.Duration(5*(4+s.R.Intn(8))) * time.Second).UnixNano())
		}
		return clienttypes.ZeroHeight(), uint64(now.Add(1000 * time.Hour).UnixNano())
	default: // both
		if soon {
			return clienttypes.NewHeight(rev, dh+uint64(3+s.R.Intn(5))), uint64(now.Add(1000 * time.Hour).UnixNano())
		}
		return clienttypes.NewHeight(rev, dh+100000), uint64(now.Add(1000 * time.Hour).UnixNano())
	}
}

func (s *Sim) transferData(src int, amt int64, denom string) transfertypes.FungibleTokenPacketData {
	return transfertypes.NewFungibleTokenPacketData(denom, fmt.Sprint(amt), s.Ch[src].Addr(0).String(), s.Ch[1-src].Addr(2).String(), "")
}

// Send sends one packet on lane l from side src. It returns nil when the send was rejected.
func (s *Sim) Send(l *Lane, src int, kind string, soon bool, nPayloads int) *Pkt {
	ch := s.Ch[src]
	th, tt := s.chooseTimeout(l, src, soon)
	s.cur = &opMeta{kind: "send", side: src}
	defer func() { s.cur = nil }()
	viewH, viewT, viewOK := s.clientView(l, src)
	blockSecs := uint64(s.W.Coord.CurrentTime.Unix())
	defer func() {
		if p := recover(); p != nil {
			panic(p)
		}
	}()
	var o *kit.Outcome
	p := &Pkt{L: l, Src: src}
	dom := l.seqDomain(src)
	switch {
	case !l.V2 && !l.Transfer:
		var seq uint64
		o = ch.InBlock(func(ctx sdk.Context) error {
			var err error
			seq, err = ch.App.GetIBCKeeper().ChannelKeeper.SendPacket(ctx, l.port(src), l.id(src), th, tt, mockData(kind))
			return err
		})
		s.observeSend(src, o, l, seq)
		if !o.OK() {
			s.log("send %s side%d rejected: %s", l.Name, src, o.Log)
			return nil
		}
		p.Seq = seq
		p.V1 = channeltypes.NewPacket(mockData(kind), seq, l.port(src), l.id(src), l.port(1-src), l.id(1-src), th, tt)
	case !l.V2 && l.Transfer:
		amt := int64(1 + s.R.Intn(50))
		msg := transfertypes.NewMsgTransfer(l.port(src), l.id(src), sdk.NewCoin(kit.Pick(s.R, []string{sdk.DefaultBondDenom, ibctesting.SecondaryDenom}), sdkmath.NewInt(amt)),
			ch.Addr(0).String(), s.Ch[1-src].Addr(2).String(), th, tt, "")
		o = ch.Deliver(ch.Acct(0), msg)
		if !o.OK() {
			s.log("send %s side%d rejected: %s", l.Name, src, o.Log)
			return nil
		}
		pk, err := ibctesting.ParseV1PacketFromEvents(o.Res.Events)
		if err != nil {
			s.C.Inconcl("cannot parse sent packet: " + err.Error())
			return nil
		}
		p.Seq, p.V1 = pk.Sequence, pk
	default: // v2 client pair or alias
		var payloads []channeltypesv2.Payload
		if l.Transfer {
			d := s.transferData(src, int64(1+s.R.Intn(50)), kit.Pick(s.R, []string{sdk.DefaultBondDenom, ibctesting.SecondaryDenom}))
			bz, _ := proto.Marshal(&d)
			payloads = append(payloads, channeltypesv2.NewPayload(transfertypes.PortID, transfertypes.PortID, transfertypes.V1, transfertypes.EncodingProtobuf, bz))
		} else {
			if nPayloads < 1 {
				nPayloads = 1
			}
			for i := 0; i < nPayloads; i++ {
				sp, dp := mockv2.PortIDA, mockv2.PortIDB
				if i%2 == 1 {
					sp, dp = mockv2.PortIDB, mockv2.PortIDA
				}
				pl := mockv2.NewMockPayload(sp, dp)
				pl.Value = mockData(kind)
				if kind == "async" && nPayloads > 1 {
					pl.Value = mockData("ok")
				}
				payloads = append(payloads, pl)
			}
		}
		sender := ch.Acct(0)
		msg := channeltypesv2.NewMsgSendPacket(l.id(src), tt, sender.SenderAccount.GetAddress().String(), payloads...)
		o = ch.Deliver(sender, msg)
		if !o.OK() {
			s.log("send %s side%d rejected: %s", l.Name, src, o.Log)
			return nil
		}
		var resp channeltypesv2.MsgSendPacketResponse
		if err := unmarshalResp(o, 0, &resp); err != nil {
			s.C.Inconcl("cannot parse send response: " + err.Error())
			return nil
		}
		p.Seq = resp.Sequence
		p.V2 = channeltypesv2.NewPacket(resp.Sequence, l.id(src), l.id(1-src), tt, payloads...)
	}
	_ = dom
	// send-time guards of C08 (success ⇒ guard), judged against the client's view read before the send
	if viewOK {
		s.C.Inc("send_guard_checks")
		if l.V2 {
			if uint64(viewT.Unix()) >= tt {
				s.viol("C08", "v2-send-with-timeout-passed-on-client", "v2 send accepted with timeout %d although the client's latest consensus time is %d", tt, viewT.Unix())
			}
			if tt <= blockSecs {
				s.viol("C08", "v2-send-with-elapsed-timeout", "v2 send accepted with timeout %d at block time %d", tt, blockSecs)
			}
			if tt > blockSecs+86400 {
				s.viol("C08", "v2-send-timeout-too-far", "v2 send accepted with timeout %d more than 24h after block time %d", tt, blockSecs)
			}
		} else {
			if !th.IsZero() && (viewH.RevisionNumber > th.RevisionNumber || (viewH.RevisionNumber == th.RevisionNumber && viewH.RevisionHeight >= th.RevisionHeight)) {
				s.viol("C08", "send-with-timeout-height-passed-on-client", "send accepted with timeout height %s although the client's latest height is %s", th, viewH)
			}
			if tt != 0 && uint64(viewT.UnixNano()) >= tt {
				s.viol("C08", "send-with-timeout-time-passed-on-client", "send accepted with timeout timestamp %d although the client's latest consensus time is %d", tt, viewT.UnixNano())
			}
		}
	}
	p.SentH = o.Height
	s.Pkts = append(s.Pkts, p)
	s.bySrc[srcKey(src, l.id(src), p.Seq)] = p
	s.log("send %s kind=%s soon=%v -> seq %d", p, kind, soon, p.Seq)
	s.C.Inc("sends_" + l.Name)
	return p
}

// clientView returns the latest height and consensus time of the counterparty as known to the client the lane uses on `side`.
func (s *Sim) clientView(l *Lane, side int) (clienttypes.Height, time.Time, bool) {
	ch := s.Ch[side]
	ck := ch.App.GetIBCKeeper().ClientKeeper
	id := l.ep(side).ClientID
	h := ck.GetClientLatestHeight(ch.GetContext(), id)
	if h.IsZero() {
		return clienttypes.Height{}, time.Time{}, false
	}
	ts, err := ck.GetClientTimestampAtHeight(ch.GetContext(), id, h)
	if err != nil {
		return clienttypes.Height{}, time.Time{}, false
	}
	return h, time.Unix(0, int64(ts)), true
}

func unmarshalResp(o *kit.Outcome, i int, m proto.Message) error {
	var msgData sdk.TxMsgData
	if err := proto.Unmarshal(o.Res.Data, &msgData); err != nil {
		return err
	}
	if i >= len(msgData.MsgResponses) {
		return fmt.Errorf("no response %d", i)
	}
	return proto.Unmarshal(msgData.MsgResponses[i].Value, m)
}

// respResult returns "NOOP", "SUCCESS" or "" for packet-message responses.
func RespResult(o *kit.Outcome) string { return respResult(o) }

func respResult(o *kit.Outcome) string {
	if o.Res == nil || !o.OK() || len(o.Msgs) == 0 {
		return ""
	}
	var msgData sdk.TxMsgData
	if err := proto.Unmarshal(o.Res.Data, &msgData); err != nil || len(msgData.MsgResponses) == 0 {
		return ""
	}
	// all packet message responses share the layout {1: enum result}; v1 NOOP=1 SUCCESS=2, v2 same numbering
	var r channeltypes.MsgRecvPacketResponse
	if err := proto.Unmarshal(msgData.MsgResponses[0].Value, &r); err != nil {
		return ""
	}
	switch r.Result {
	case channeltypes.NOOP:
		return "NOOP"
	case channeltypes.SUCCESS:
		return "SUCCESS"
	}
	return ""
}

// ---------------------------------------------------------------------------------------------
// relaying (message construction)

func (s *Sim) proof(from int, key []byte, height int64) ([]byte, clienttypes.Height) {
	if height <= 0 {
		return s.Ch[from].QueryProof(key)
	}
	return s.Ch[from].QueryProofAtHeight(key, height)
}

// update brings the client on `side` (for lane l) up to the counterparty's latest block.
func (s *Sim) update(l *Lane, side int) error {
	var err error
	if e := kit.Try(func() { err = l.ep(side).UpdateClient() }); e != nil {
		return e
	}
	return err
}

func (s *Sim) BuildRecv(p *Pkt, height int64, signer string) sdk.Msg {
	if p.L.V2 {
		proof, ph := s.proof(p.Src, hostv2.PacketCommitmentKey(p.V2.SourceClient, p.Seq), height)
		return channeltypesv2.NewMsgRecvPacket(p.V2, proof, ph, signer)
	}
	proof, ph := s.proof(p.Src, host.PacketCommitmentKey(p.V1.SourcePort, p.V1.SourceChannel, p.Seq), height)
	return channeltypes.NewMsgRecvPacket(p.V1, proof, ph, signer)
}

func (s *Sim) BuildAck(p *Pkt, height int64, signer string) sdk.Msg {
	if p.L.V2 {
		ack := channeltypesv2.Acknowledgement{AppAcknowledgements: [][]byte{[]byte("unknown")}}
		if p.AckV2 != nil {
			ack = *p.AckV2
		}
		proof, ph := s.proof(p.dst(), hostv2.PacketAcknowledgementKey(p.V2.DestinationClient, p.Seq), height)
		return channeltypesv2.NewMsgAcknowledgement(p.V2, ack, proof, ph, signer)
	}
	ack := p.AckV1
	if ack == nil {
		ack = ibcmock.MockAcknowledgement.Acknowledgement()
	}
	proof, ph := s.proof(p.dst(), host.PacketAcknowledgementKey(p.V1.DestinationPort, p.V1.DestinationChannel, p.Seq), height)
	return channeltypes.NewMsgAcknowledgement(p.V1, ack, proof, ph, signer)
}

func (s *Sim) nextSeqRecv(p *Pkt) uint64 {
	d := s.Ch[p.dst()]
	n, _ := d.App.GetIBCKeeper().ChannelKeeper.GetNextSequenceRecv(d.GetContext(), p.V1.DestinationPort, p.V1.DestinationChannel)
	return n
}

func (s *Sim) BuildTimeout(p *Pkt, height int64, signer string, onClose bool) sdk.Msg {
	if p.L.V2 {
		proof, ph := s.proof(p.dst(), hostv2.PacketReceiptKey(p.V2.DestinationClient, p.Seq), height)
		return channeltypesv2.NewMsgTimeout(p.V2, proof, ph, signer)
	}
	var key []byte
	if p.L.Ordered {
		key = host.NextSequenceRecvKey(p.V1.DestinationPort, p.V1.DestinationChannel)
	} else {
		key = host.PacketReceiptKey(p.V1.DestinationPort, p.V1.DestinationChannel, p.Seq)
	}
	proof, ph := s.proof(p.dst(), key, height)
	if onClose {
		cproof, _ := s.proof(p.dst(), host.ChannelKey(p.V1.DestinationPort, p.V1.DestinationChannel), height)
		return channeltypes.NewMsgTimeoutOnClose(p.V1, s.nextSeqRecv(p), proof, cproof, ph, signer)
	}
	return channeltypes.NewMsgTimeout(p.V1, s.nextSeqRecv(p), proof, ph, signer)
}

// gates captures the receive-side preconditions the statement of C05 names, from the pre-state.
func (s *Sim) gates(m *opMeta, l *Lane, side int) {
	ch := s.Ch[side]
	ctx := ch.GetContext()
	k := ch.App.GetIBCKeeper()
	m.gatesKnown = true
	m.chanOpen, m.connOpen = true, true
	clientID := l.ep(side).ClientID
	if !l.V2 || l.Alias {
		c, ok := k.ChannelKeeper.GetChannel(ctx, l.port(side), l.id(side))
		m.chanOpen = ok && c.State == channeltypes.OPEN
		if ok {
			conn, ok2 := k.ConnectionKeeper.GetConnection(ctx, c.ConnectionHops[0])
			m.connOpen = ok2 && conn.State.String() == "STATE_OPEN"
		}
	}
	m.clientActive = k.ClientKeeper.GetClientStatus(ctx, clientID).String() == "Active"
}

// Relay delivers a packet message on chain `side` and lets the monitors look at it.
func (s *Sim) Relay(side int, msg sdk.Msg, m *opMeta) *kit.Outcome {
	m.side = side
	if m.pkt != nil && m.kind == "recv" {
		s.gates(m, m.pkt.L, side)
	}
	s.cur = m
	defer func() { s.cur = nil }()
	s.hist[side] = append(s.hist[side], msg)
	signer := s.signerFor(side, msg)
	o := s.Ch[side].Deliver(signer, msg)
	s.log("%s %s %s on side%d -> ok=%v %s %s", m.kind, m.hostile, pktStr(m.pkt), side, o.OK(), respResult(o), shortLog(o))
	return o
}

func pktStr(p *Pkt) string {
	if p == nil {
		return "-"
	}
	return p.String()
}

func shortLog(o *kit.Outcome) string {
	if o.OK() {
		return ""
	}
	l := o.Log
	if len(l) > 140 {
		l = l[len(l)-140:]
	}
	return l
}

// signerFor finds the account whose address the message names as signer.
func (s *Sim) signerFor(side int, msg sdk.Msg) ibctesting.SenderAccount {
	want := ""
	switch m := msg.(type) {
	case *channeltypes.MsgRecvPacket:
		want = m.Signer
	case *channeltypes.MsgAcknowledgement:
		want = m.Signer
	case *channeltypes.MsgTimeout:
		want = m.Signer
	case *channeltypes.MsgTimeoutOnClose:
		want = m.Signer
	case *channeltypesv2.MsgRecvPacket:
		want = m.Signer
	case *channeltypesv2.MsgAcknowledgement:
		want = m.Signer
	case *channeltypesv2.MsgTimeout:
		want = m.Signer
	case *channeltypesv2.MsgSendPacket:
		want = m.Signer
	case *transfertypes.MsgTransfer:
		want = m.Sender
	}
	for _, a := range s.Ch[side].SenderAccounts {
		if a.SenderAccount.GetAddress().String() == want {
			return a
		}
	}
	return s.Ch[side].Acct(1)
}

func (s *Sim) addr(side int) string { return s.signer(side).SenderAccount.GetAddress().String() }

// HonestRecv: update client, fresh proof, deliver.
func (s *Sim) HonestRecv(p *Pkt) *kit.Outcome {
	if err := s.update(p.L, p.dst()); err != nil {
		s.log("update before recv failed: %v", err)
	}
	msg := s.BuildRecv(p, 0, s.addr(p.dst()))
	return s.Relay(p.dst(), msg, &opMeta{kind: "recv", pkt: p})
}

func (s *Sim) HonestAck(p *Pkt) *kit.Outcome {
	if err := s.update(p.L, p.Src); err != nil {
		s.log("update before ack failed: %v", err)
	}
	msg := s.BuildAck(p, 0, s.addr(p.Src))
	return s.Relay(p.Src, msg, &opMeta{kind: "ack", pkt: p})
}

func (s *Sim) HonestTimeout(p *Pkt, onClose bool) *kit.Outcome {
	if err := s.update(p.L, p.Src); err != nil {
		s.log("update before timeout failed: %v", err)
	}
	var msg sdk.Msg
	if err := kit.Try(func() { msg = s.BuildTimeout(p, 0, s.addr(p.Src), onClose && !p.L.V2) }); err != nil {
		s.log("build timeout failed: %v", err)
		return nil
	}
	return s.Relay(p.Src, msg, &opMeta{kind: "timeout", pkt: p})
}

// elapsedOnDst says whether the packet's timeout has elapsed w.r.t. the destination's latest block.
func (s *Sim) elapsedOnDst(p *Pkt) bool {
	d := s.Ch[p.dst()]
	h := clienttypes.NewHeight(clienttypes.ParseChainID(d.ChainID), uint64(d.App.LastBlockHeight()))
	t := d.LatestCommittedHeader.GetTime()
	return elapsedModel(p, h, t)
}

// elapsedModel is the statement's notion of "the destination's height or time has reached the timeout".
func elapsedModel(p *Pkt, h clienttypes.Height, t time.Time) bool {
	if p.L.V2 {
		return uint64(t.Unix()) >= p.V2.TimeoutTimestamp
	}
	th := p.V1.TimeoutHeight
	if !th.IsZero() {
		if h.RevisionNumber > th.RevisionNumber || (h.RevisionNumber == th.RevisionNumber && h.RevisionHeight >= th.RevisionHeight) {
			return true
		}
	}
	if p.V1.TimeoutTimestamp != 0 && uint64(t.UnixNano()) >= p.V1.TimeoutTimestamp {
		return true
	}
	return false
}

// AdvanceDst commits blocks on the destination until the packet's timeout has elapsed there (bounded).
func (s *Sim) AdvanceDst(p *Pkt) {
	for i := 0; i < 20 && !s.elapsedOnDst(p); i++ {
		s.Ch[p.dst()].Commit()
	}
}

// ---------------------------------------------------------------------------------------------
// asynchronous acknowledgements (application side)

func (s *Sim) WriteAsyncAck(p *Pkt, success bool) *kit.Outcome {
	d := s.Ch[p.dst()]
	s.cur = &opMeta{kind: "writeack", pkt: p, side: p.dst()}
	defer func() { s.cur = nil }()
	var o *kit.Outcome
	if p.L.V2 {
		ack := channeltypesv2.NewAcknowledgement(ibcmock.MockAcknowledgement.Acknowledgement())
		if !success {
			ack = channeltypesv2.NewAcknowledgement(channeltypesv2.ErrorAcknowledgement[:])
		}
		o = d.InBlock(func(ctx sdk.Context) error {
			return d.App.GetIBCKeeper().ChannelKeeperV2.WriteAcknowledgement(ctx, p.V2.DestinationClient, p.Seq, ack)
		})
		if o.OK() && p.AckV2 == nil {
			p.AckV2 = &ack
		}
		if o.OK() {
			// C11: an asynchronously acknowledged v2 packet is removed once its acknowledgement is written
			s.C.Inc("async_acks_written_v2")
			if len(d.StoreGet("ibc", channeltypesv2.AsyncPacketKey(p.V2.DestinationClient, p.Seq))) != 0 {
				s.viol("C11", "async-packet-survives-its-acknowledgement", "v2 packet %s is still stored as asynchronous after its acknowledgement was written", p)
			}
		} else if p.RecvResult == "async" && p.AckV2 == nil && p.received() {
			// refused although the packet is received, asynchronous and unacknowledged: it must stay retrievable
			if len(d.StoreGet("ibc", channeltypesv2.AsyncPacketKey(p.V2.DestinationClient, p.Seq))) == 0 {
				s.viol("C11", "pending-async-packet-lost", "v2 packet %s awaits its asynchronous acknowledgement but is no longer retrievable (%s)", p, shortLog(o))
			}
		}
	} else {
		var ack channeltypes.Acknowledgement = ibcmock.MockAcknowledgement
		if !success {
			ack = ibcmock.MockFailAcknowledgement
		}
		o = d.InBlock(func(ctx sdk.Context) error {
			return d.App.GetIBCKeeper().ChannelKeeper.WriteAcknowledgement(ctx, p.V1, ack)
		})
		if o.OK() && p.AckV1 == nil {
			p.AckV1 = ack.Acknowledgement()
		}
	}
	s.observeDiff(p.dst(), o)
	s.log("writeack %s success=%v -> ok=%v %s", p, success, o.OK(), shortLog(o))
	return o
}

var _ = bytes.Equal
