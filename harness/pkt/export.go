package pkt

import (
	"verif/harness/kit"

	ibctesting "github.com/cosmos/ibc-go/v11/testing"
	"github.com/cosmos/ibc-go/v11/testing/simapp"
)

// exported views for other packages (sys) that reuse the simulator as a history generator

func (p *Pkt) Received() bool   { return p.received() }
func (p *Pkt) IsTerminal() bool { return p.terminal() }
func (p *Pkt) AckKnown() bool   { return p.ackKnown() }
func (p *Pkt) Dst() int         { return p.dst() }

func (l *Lane) Ep(side int) *ibctesting.Endpoint { return l.ep(side) }
func (l *Lane) ID(side int) string               { return l.id(side) }

func (s *Sim) ElapsedOnDst(p *Pkt) bool       { return s.elapsedOnDst(p) }
func (s *Sim) Update(l *Lane, side int) error { return s.update(l, side) }
func (s *Sim) Addr(side int) string           { return s.addr(side) }
func (s *Sim) IsOrderedHead(p *Pkt) bool      { return s.isOrderedHead(p) }
func (s *Sim) IsOrderedAckHead(p *Pkt) bool   { return s.isOrderedAckHead(p) }
func (s *Sim) Trace() []string                { return s.trace }

// InstallApps gives a chain's mock v2 applications the behaviour the simulator uses (needed for twins of a chain).
func InstallApps(ch *kit.Chain) { InstallAppsOn(ch.Sim) }

// InstallAppsOn does the same for a bare application (replicas).
func InstallAppsOn(app *simapp.SimApp) {
	app.MockModuleV2A.IBCApp.OnRecvPacket = distinctAckApp("aa-app-A")
	app.MockModuleV2B.IBCApp.OnRecvPacket = distinctAckApp("zz-app-B")
	app.IBCMockModule.IBCApp.OnRecvPacket = rawAckApp
}
