package pkt

import (
	"fmt"
	"time"

	sdk "github.com/cosmos/cosmos-sdk/types"

	clienttypes "github.com/cosmos/ibc-go/v11/modules/core/02-client/types"
	channeltypes "github.com/cosmos/ibc-go/v11/modules/core/04-channel/types"
	"github.com/cosmos/ibc-go/v11/modules/core/exported"
	ibctesting "github.com/cosmos/ibc-go/v11/testing"

	"verif/harness/kit"
)

var localhostSentinel = []byte{0x01}

// c04Localhost: a chain talking to itself over connection-localhost. The relayer chooses the proof height freely;
// a timeout must nevertheless not be accepted before the chain itself has reached the packet's timeout.
func c04Localhost(c *kit.Check, r *kit.Rng) {
	w := kit.NewWorld(c.T, 1)
	a := w.Chains[0]
	signer := a.Acct(2)
	addr := signer.SenderAccount.GetAddress().String()
	port := ibctesting.MockPort
	hops := []string{exported.LocalhostConnectionID}
	order := channeltypes.UNORDERED
	if r.Bool() {
		order = channeltypes.ORDERED
	}
	anyH := func() clienttypes.Height { return clienttypes.NewHeight(1, uint64(a.App.LastBlockHeight())) }
	must := func(o *kit.Outcome, what string) *kit.Outcome {
		if !o.OK() {
			panic(kit.Abort{Msg: what + ": " + o.Log})
		}
		return o
	}
	o := must(a.Deliver(signer, channeltypes.NewMsgChannelOpenInit(port, ibctesting.DefaultChannelVersion, order, hops, port, addr)), "init")
	ch1, _ := ibctesting.ParseChannelIDFromEvents(o.Res.Events)
	o = must(a.Deliver(signer, channeltypes.NewMsgChannelOpenTry(port, ibctesting.DefaultChannelVersion, order, hops, port, ch1, ibctesting.DefaultChannelVersion, localhostSentinel, anyH(), addr)), "try")
	ch2, _ := ibctesting.ParseChannelIDFromEvents(o.Res.Events)
	must(a.Deliver(signer, channeltypes.NewMsgChannelOpenAck(port, ch1, ch2, ibctesting.DefaultChannelVersion, localhostSentinel, anyH(), addr)), "ack")
	must(a.Deliver(signer, channeltypes.NewMsgChannelOpenConfirm(port, ch2, localhostSentinel, anyH(), addr)), "confirm")

	npk := 6
	if order == channeltypes.ORDERED {
		npk = 1 // the first timeout closes an ORDERED channel
	}
	for i := 0; i < npk; i++ {
		self := uint64(a.App.LastBlockHeight())
		now := w.Coord.CurrentTime
		th, tt := clienttypes.ZeroHeight(), uint64(0)
		kind := r.Intn(3)
		switch kind {
		case 0:
			th = clienttypes.NewHeight(1, self+uint64(6+r.Intn(8)))
		case 1:
			tt = uint64(now.Add(time.Duration(5*(6+r.Intn(8))) * time.Second).UnixNano())
		default:
			th = clienttypes.NewHeight(1, self+uint64(6+r.Intn(8)))
			tt = uint64(now.Add(1000 * time.Hour).UnixNano())
		}
		var seq uint64
		so := a.InBlock(func(ctx sdk.Context) error {
			var err error
			seq, err = a.App.GetIBCKeeper().ChannelKeeper.SendPacket(ctx, port, ch1, th, tt, ibcMockData)
			return err
		})
		if !so.OK() {
			c.Inc("localhost_send_rejected")
			continue
		}
		pk := channeltypes.NewPacket(ibcMockData, seq, port, ch1, port, ch2, th, tt)
		timedOut := false
		// hostile timeouts with relayer-chosen proof heights while the chain has NOT reached the timeout
		for _, ph := range []uint64{self, self + 1, th.RevisionHeight, th.RevisionHeight + 1, self + 5000, 1 << 40} {
			if timedOut || ph == 0 {
				continue
			}
			msg := channeltypes.NewMsgTimeout(pk, 1, localhostSentinel, clienttypes.NewHeight(1, ph), addr)
			to := a.Deliver(signer, msg)
			c.Inc("localhost_timeout_attempts")
			if !to.OK() {
				c.Inc("localhost_timeout_rejected")
				if len(to.Diff) != 0 {
					c.Violate("C04|rejected-timeout-changed-state|localhost", "rejected localhost timeout changed state:"+to.DiffString(), nil)
				}
				continue
			}
			if RespResult(to) == "NOOP" {
				continue
			}
			timedOut = true
			hNow := clienttypes.NewHeight(1, uint64(to.Height))
			reached := (!th.IsZero() && hNow.GTE(th)) || (tt != 0 && uint64(to.BlockTime.UnixNano()) >= tt)
			c.Inc("localhost_timeout_accepted")
			c.Eval(fmt.Sprintf("localhost|kind%d|proof-height-offset=%d|reached=%v", kind, int64(ph)-int64(self), reached))
			if !reached {
				c.Violate("C04|localhost-timeout-before-chain-reached-it", fmt.Sprintf("localhost: packet with timeout height %s / timestamp %d timed out at chain height %d (block time %d) with relayer-supplied proof height %d", th, tt, to.Height, to.BlockTime.UnixNano(), ph), map[string]any{"proof_height": ph, "chain_height": to.Height})
			}
		}
		if timedOut {
			// never both: the packet must not be receivable any more
			ro := a.Deliver(signer, channeltypes.NewMsgRecvPacket(pk, localhostSentinel, anyH(), addr))
			if ro.OK() && RespResult(ro) == "SUCCESS" && len(ro.CBs) > 0 {
				c.Violate("C04|received-and-timed-out|localhost", "localhost packet received after it was timed out", nil)
			}
			continue
		}
		// honest path: let the chain really reach the timeout, then time out with the current height
		for j := 0; j < 20; j++ {
			h := clienttypes.NewHeight(1, uint64(a.App.LastBlockHeight())+1)
			t := w.Coord.CurrentTime
			if (!th.IsZero() && h.GTE(th)) || (tt != 0 && uint64(t.UnixNano()) >= tt) {
				break
			}
			a.Commit()
		}
		to := a.Deliver(signer, channeltypes.NewMsgTimeout(pk, 1, localhostSentinel, clienttypes.NewHeight(1, uint64(a.App.LastBlockHeight())+1), addr))
		if to.OK() {
			c.Inc("localhost_honest_timeouts")
			c.Eval(fmt.Sprintf("localhost|kind%d|honest", kind))
		} else {
			c.Inc("localhost_honest_timeout_rejected")
		}
	}
}

var ibcMockData = ibctesting.MockPacketData
