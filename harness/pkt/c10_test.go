package pkt

import (
	"bytes"
	"fmt"
	"strings"
	"testing"

	sdk "github.com/cosmos/cosmos-sdk/types"

	channeltypesv2 "github.com/cosmos/ibc-go/v11/modules/core/04-channel/v2/types"
	hostv2 "github.com/cosmos/ibc-go/v11/modules/core/24-host/v2"
	ibctesting "github.com/cosmos/ibc-go/v11/testing"
	mockv2 "github.com/cosmos/ibc-go/v11/testing/mock/v2"

	"verif/harness/kit"
)

// behaviours of one payload's application, encoded in the payload value "<beh>:<k>:<tag>"
//
//	S  = write k keys, succeed          F = fail at once          WF = write k keys, then fail
//	A  = write k keys, answer async     X = succeed but hand back the universal error sentinel as acknowledgement
var c10Behaviours = []string{"S", "F", "WF", "A", "X"}

const c10Store = "gmp" // a watched store nobody else writes in this world: application state of the injected apps

func c10App(ch *kit.Chain, port string) func(ctx sdk.Context, src, dst string, seq uint64, payload channeltypesv2.Payload, relayer sdk.AccAddress) channeltypesv2.RecvPacketResult {
	return func(ctx sdk.Context, src, dst string, seq uint64, payload channeltypesv2.Payload, relayer sdk.AccAddress) channeltypesv2.RecvPacketResult {
		parts := strings.SplitN(string(payload.Value), ":", 3)
		beh, k := parts[0], 0
		fmt.Sscanf(parts[1], "%d", &k)
		write := func() {
			st := ctx.KVStore(ch.Sim.GetKey(c10Store))
			for i := 0; i < k; i++ {
				st.Set([]byte(fmt.Sprintf("c10/%s/%s/%d/%s/%d", port, dst, seq, parts[2], i)), payload.Value)
			}
		}
		switch beh {
		case "S":
			write()
			return channeltypesv2.RecvPacketResult{Status: channeltypesv2.PacketStatus_Success, Acknowledgement: []byte("ack-" + port + "-" + parts[2])}
		case "WF":
			write()
			return channeltypesv2.RecvPacketResult{Status: channeltypesv2.PacketStatus_Failure}
		case "A":
			write()
			return channeltypesv2.RecvPacketResult{Status: channeltypesv2.PacketStatus_Async}
		case "X":
			write()
			return channeltypesv2.RecvPacketResult{Status: channeltypesv2.PacketStatus_Success, Acknowledgement: channeltypesv2.ErrorAcknowledgement[:]}
		}
		return channeltypesv2.RecvPacketResult{Status: channeltypesv2.PacketStatus_Failure}
	}
}

// TestC10 enumerates every status vector of IBC v2 packets with 1..3 payloads (and samples 4) over the two mock
// applications, on a client pair and over a channel alias, and checks the all-or-nothing rule on the real state diff.
func TestC10(t *testing.T) {
	c := kit.NewCheck(t, "C10", "fault_enumeration",
		"fault matrix = every vector over {success, fail, write-then-fail, async, success-with-sentinel-ack}^N for N=1..3 payloads (N=4 sampled), each application writing 0-3 keys before answering, on an IBC v2 client pair and on a v1 channel alias; "+
			"one evaluation = send + receive of one packet with the oracle on tx result, stored acknowledgement and state diff; distinct = distinct (lane, vector) cells; all cells are non-trivial")
	defer c.Finish()
	c.Assume("mock v2 applications of testing/simapp with injected OnRecvPacket behaviour; light-client proof verification trusted")
	c.Floor("vectors", 300)
	c.Floor("all_success", 10)
	c.Floor("some_failure", 100)
	c.Floor("async_single", 2)
	c.Floor("async_multi_rejected", 50)
	r := c.CaseRng(0)

	w := kit.NewWorld(t, 2)
	a, b := w.Chains[0], w.Chains[1]
	b.Sim.MockModuleV2A.IBCApp.OnRecvPacket = c10App(b, mockv2.PortIDA)
	b.Sim.MockModuleV2B.IBCApp.OnRecvPacket = c10App(b, mockv2.PortIDB)
	pv := ibctesting.NewPath(a.TestChain, b.TestChain)
	pv.SetupV2()
	pa := ibctesting.NewPath(a.TestChain, b.TestChain)
	pa.Setup()
	type lane struct {
		name     string
		src, dst string
		ep       *ibctesting.Endpoint // destination endpoint (client to update)
	}
	lanes := []lane{{"v2", pv.EndpointA.ClientID, pv.EndpointB.ClientID, pv.EndpointB}, {"alias", pa.EndpointA.ChannelID, pa.EndpointB.ChannelID, pa.EndpointB}}

	var vectors [][]string
	var gen func(n int, cur []string)
	gen = func(n int, cur []string) {
		if len(cur) == n {
			vectors = append(vectors, append([]string{}, cur...))
			return
		}
		for _, bh := range c10Behaviours {
			gen(n, append(cur, bh))
		}
	}
	for n := 1; n <= 3; n++ {
		gen(n, nil)
	}
	exhaustive := len(vectors)
	// the success corner is a single cell per N: repeat it with different amounts of application state
	for n := 1; n <= 4; n++ {
		for rep := 0; rep < 3; rep++ {
			v := make([]string, n)
			for j := range v {
				v[j] = "S"
			}
			vectors = append(vectors, v)
		}
	}
	extra := 40
	if c.Thorough() {
		extra = 300
	}
	for i := 0; i < extra; i++ { // N = 4 sampled
		v := make([]string, 4)
		for j := range v {
			v[j] = kit.Pick(r, c10Behaviours)
		}
		vectors = append(vectors, v)
	}
	// shards split the matrix; every shard of a thorough run takes its slice, the quick run takes everything
	c.Exhaustive = true
	tag := 0
	for vi, vec := range vectors {
		if c.Shards > 1 && vi%c.Shards != c.Shard {
			continue
		}
		for _, ln := range lanes {
			id := fmt.Sprintf("%s|%s|%d", ln.name, strings.Join(vec, ","), vi)
			c.SetCase(id)
			if c.OnlyCase != "" && c.OnlyCase != id {
				continue
			}
			var payloads []channeltypesv2.Payload
			ks := make([]int, len(vec))
			for j, bh := range vec {
				sp, dp := mockv2.PortIDA, mockv2.PortIDB
				if j%2 == 1 {
					sp, dp = mockv2.PortIDB, mockv2.PortIDA
				}
				ks[j] = r.Intn(4)
				tag++
				pl := mockv2.NewMockPayload(sp, dp)
				pl.Value = []byte(fmt.Sprintf("%s:%d:%d", bh, ks[j], tag))
				payloads = append(payloads, pl)
			}
			err := kit.Try(func() { c10One(c, w, a, b, ln.src, ln.dst, ln.ep, vec, ks, payloads) })
			if err != nil {
				c.Inconcl(err.Error())
				continue
			}
			c.Inc("vectors")
			c.Eval(id)
			if vi < exhaustive && len(c.Samples) < 6 && vi%17 == 0 {
				c.Sample(map[string]any{"lane": ln.name, "vector": vec, "keys_written_before_answer": ks})
			}
		}
	}
}

func c10One(c *kit.Check, w *kit.World, a, b *kit.Chain, src, dst string, dstEp *ibctesting.Endpoint, vec []string, ks []int, payloads []channeltypesv2.Payload) {
	timeout := uint64(w.Coord.CurrentTime.Unix()) + 3600
	sender := a.Acct(0)
	o := a.Deliver(sender, channeltypesv2.NewMsgSendPacket(src, timeout, sender.SenderAccount.GetAddress().String(), payloads...))
	if !o.OK() {
		panic(kit.Abort{Msg: "send failed: " + o.Log})
	}
	var resp channeltypesv2.MsgSendPacketResponse
	if err := unmarshalResp(o, 0, &resp); err != nil {
		panic(kit.Abort{Msg: err.Error()})
	}
	pk := channeltypesv2.NewPacket(resp.Sequence, src, dst, timeout, payloads...)
	if err := dstEp.UpdateClient(); err != nil {
		panic(kit.Abort{Msg: err.Error()})
	}
	proof, ph := a.QueryProof(hostv2.PacketCommitmentKey(src, resp.Sequence))
	rel := b.Acct(3)
	ro := b.Deliver(rel, channeltypesv2.NewMsgRecvPacket(pk, proof, ph, rel.SenderAccount.GetAddress().String()))

	hasF, hasA, hasX := false, false, false
	for _, bh := range vec {
		switch bh {
		case "F", "WF":
			hasF = true
		case "A":
			hasA = true
		case "X":
			hasX = true
		}
	}
	receiptKey := hostv2.PacketReceiptKey(dst, resp.Sequence)
	ackKey := hostv2.PacketAcknowledgementKey(dst, resp.Sequence)
	var appDiff, ibcDiff []kit.KV
	for _, kv := range ro.Diff {
		if kv.Store == "ibc" {
			ibcDiff = append(ibcDiff, kv)
		} else {
			appDiff = append(appDiff, kv)
		}
	}
	storedAck := b.StoreGet("ibc", ackKey)
	cell := strings.Join(vec, ",")
	var acks [][]byte
	total := 0
	for i, pl := range payloads {
		parts := strings.SplitN(string(pl.Value), ":", 3)
		acks = append(acks, []byte("ack-"+pl.DestinationPort+"-"+parts[2]))
		total += ks[i]
	}
	sentinelCommit := ModelAckCommitV2(channeltypesv2.NewAcknowledgement(channeltypesv2.ErrorAcknowledgement[:]))
	successCommit := ModelAckCommitV2(channeltypesv2.NewAcknowledgement(acks...))

	// observed outcome class
	obs := "other"
	switch {
	case !ro.OK():
		obs = "R" // rejected
	case len(storedAck) == 0:
		obs = "AS" // accepted, no acknowledgement yet
	case bytes.Equal(storedAck, sentinelCommit):
		obs = "E"
	case bytes.Equal(storedAck, successCommit):
		obs = "S"
	}
	// outcomes the statement allows for this vector
	var allowed []string
	switch {
	case !hasF && !hasA && !hasX:
		allowed = []string{"S"}
		c.Inc("all_success")
	case hasF && !hasA && !hasX:
		allowed = []string{"E"}
		c.Inc("some_failure")
	case len(vec) == 1 && hasA:
		allowed = []string{"AS"}
		c.Inc("async_single")
	default:
		// async inside a multi-payload packet, or a success answer carrying the sentinel: never acceptable as success;
		// refusing the receive is fine, and so is the error acknowledgement when some payload failed anyway
		allowed = []string{"R"}
		if hasF {
			allowed = append(allowed, "E")
			c.Inc("some_failure")
		}
		if hasA && len(vec) > 1 && obs == "R" {
			c.Inc("async_multi_rejected")
		}
		if hasX {
			c.Inc("sentinel_in_success")
		}
	}
	ok := false
	for _, x := range allowed {
		ok = ok || x == obs
	}
	if !ok {
		c.Violate("C10|outcome-"+obs+"-not-allowed|F="+fmt.Sprint(hasF)+",A="+fmt.Sprint(hasA)+",X="+fmt.Sprint(hasX)+",multi="+fmt.Sprint(len(vec) > 1),
			fmt.Sprintf("vector [%s]: observed outcome %s (tx ok=%v, stored ack %x), the statement allows %v; log %s", cell, obs, ro.OK(), storedAck, allowed, clipS(ro.Log)), map[string]any{"vector": vec})
		return
	}
	c.Inc("outcome_" + obs)
	// state that must accompany the observed outcome
	switch obs {
	case "R":
		if len(ro.Diff) != 0 {
			c.Violate("C10|rejected-receive-changed-state", fmt.Sprintf("vector [%s]: rejected receive changed state:%s", cell, ro.DiffString()), nil)
		}
	case "E":
		if len(appDiff) != 0 {
			c.Violate("C10|app-state-persisted-despite-failure", fmt.Sprintf("vector [%s]: application state persisted although the packet was answered with the error acknowledgement:%s", cell, diffS(appDiff)), nil)
		}
		if len(b.StoreGet("ibc", receiptKey)) == 0 {
			c.Violate("C10|receipt-missing-after-failure", fmt.Sprintf("vector [%s]: no receipt after failed receive", cell), nil)
		}
		c10ExactCore(c, cell, ibcDiff, receiptKey, ackKey)
	case "S":
		if got := countKeys(appDiff); got != total {
			c.Violate("C10|success-app-state-not-persisted", fmt.Sprintf("vector [%s]: %d application keys persisted, expected %d", cell, got, total), nil)
		}
		c10ExactCore(c, cell, ibcDiff, receiptKey, ackKey)
	case "AS":
		if got := countKeys(appDiff); got != total {
			c.Violate("C10|async-app-state-not-persisted", fmt.Sprintf("async receive persisted %d application keys, expected %d", got, total), nil)
		}
		if len(b.StoreGet("ibc", receiptKey)) == 0 {
			c.Violate("C10|receipt-missing-after-async", "no receipt after async receive", nil)
		}
	}
}

func anyFailBefore(vec []string, target string) bool {
	for _, bh := range vec {
		if bh == target {
			return false
		}
		if bh == "F" || bh == "WF" {
			return true
		}
	}
	return false
}

func c10ExactCore(c *kit.Check, cell string, ibcDiff []kit.KV, receiptKey, ackKey []byte) {
	for _, kv := range ibcDiff {
		if !bytes.Equal(kv.Key, receiptKey) && !bytes.Equal(kv.Key, ackKey) {
			c.Violate("C10|unexpected-core-write", fmt.Sprintf("vector [%s]: receive wrote unexpected ibc key %q", cell, kv.Key), nil)
		}
	}
}

func countKeys(d []kit.KV) int {
	n := 0
	for _, kv := range d {
		if kv.Store == c10Store && kv.New != nil {
			n++
		}
	}
	return n
}

func diffS(d []kit.KV) string {
	s := ""
	for i, kv := range d {
		if i > 5 {
			break
		}
		s += " " + kv.String()
	}
	return s
}

func clipS(s string) string {
	if len(s) > 160 {
		return s[len(s)-160:]
	}
	return s
}
