package pkt

import (
	"testing"

	"verif/harness/kit"
)

const pktRule = "cases = PRNG-determined hostile relay histories (sends on v1 UNORDERED/ORDERED mock, v1 transfer, v2 client pair and v2-over-alias lanes; honest, duplicate, out-of-order, replayed and field-mutated recv/ack/timeout messages; async acks; block/time advance) ending in an honest drain; " +
	"a case is non-trivial when at least one hostile message was judged; distinct = distinct sequences of (operation kind, outcome class)"

type tweak func(pr *Profile, o *SimOpts)

// runPktWith lets a property add extra workloads (run before the relay histories) to the same Check.
var extraPart = map[string]func(c *kit.Check){}

func runPktWith(t *testing.T, prop string, extra func(c *kit.Check)) {
	extraPart[prop] = extra
	testC04Sim(t)
}

func runPkt(t *testing.T, prop, level string, quickCases, thoroughCases, ops int, tw tweak, floors map[string]int64) {
	c := kit.NewCheck(t, prop, level, pktRule)
	defer c.Finish()
	if f := extraPart[prop]; f != nil {
		c.SetCase("extra")
		if c.OnlyCase == "" || c.OnlyCase == "extra" {
			f(c)
		}
	}
	c.Assume("CometBFT/IAVL proof verification and the SDK transaction machinery are the trusted base")
	c.Assume("application stacks are the ones wired in testing/simapp (mock, transfer+PFM+rate-limit, mock v2 A/B, transfer v2)")
	for k, v := range floors {
		c.Floor(k, v)
	}
	n := c.N(quickCases, thoroughCases)
	for i := 0; i < n; i++ {
		if c.SkipCase(i) {
			continue
		}
		r := c.CaseRng(i)
		pr, so := DefaultProfile(), AllLanes()
		if tw != nil {
			tw(&pr, &so)
		}
		var classes []string
		hostileJudged := false
		err := kit.Try(func() {
			s := NewSim(c, r, so)
			nops := ops/2 + r.Intn(ops)
			for j := 0; j < nops; j++ {
				cls := s.Step(pr)
				if cls != "" {
					classes = append(classes, cls)
				}
			}
			s.Drain()
			s.EndChecks()
			hostileJudged = s.C.Observed["rejected_hostile"]+s.C.Observed["mutants_accepted"] > 0
			if i < 2 {
				tail := s.trace
				if len(tail) > 25 {
					tail = tail[:25]
				}
				c.Sample(map[string]any{"case": c.CaseID(i), "ops": tail})
			}
		})
		c.Inc("cases")
		if err != nil {
			c.Inconcl(err.Error())
			continue
		}
		if hostileJudged {
			c.Eval(abstract(classes))
		} else {
			c.Eval("")
		}
	}
}

func TestC01(t *testing.T) {
	runPkt(t, "C01", "exploration", 40, 60, 70, func(pr *Profile, o *SimOpts) {
		pr.RecvDup, pr.Replay = 14, 14
	}, map[string]int64{"cb_recv": 120, "accepted_recv_NOOP": 40, "rejected_hostile": 100})
}

func TestC02(t *testing.T) {
	runPkt(t, "C02", "exploration", 40, 60, 70, func(pr *Profile, o *SimOpts) {
		*o = SimOpts{Ordered: true, Unordered: true}
		pr.OutOfOrder, pr.SoonPct = 12, 10
	}, map[string]int64{"ordered_recv": 60, "ordered_ack": 30, "rejected_hostile": 60})
}

func TestC03(t *testing.T) {
	runPkt(t, "C03", "exploration", 40, 60, 70, func(pr *Profile, o *SimOpts) {
		pr.AckDup, pr.Timeout, pr.TimeoutReceived, pr.SoonPct, pr.Replay = 10, 10, 6, 50, 12
	}, map[string]int64{"cb_ack": 100, "cb_timeout": 40, "accepted_ack_NOOP": 20, "accepted_timeout_NOOP": 5})
}

func TestC04(t *testing.T) {
	defer func() {
		// localhost loopback part (its own small worlds); counted into the same evidence
	}()
	runPktWith(t, "C04", func(c *kit.Check) {
		c.Floor("localhost_timeout_attempts", 50)
		c.Floor("localhost_timeout_rejected", 30)
		c.Floor("localhost_honest_timeouts", 6)
		n := c.N(12, 20)
		for i := 0; i < n; i++ {
			r := kit.NewRng(c.Seed, "C04-localhost", c.CaseID(i))
			if err := kit.Try(func() { c04Localhost(c, r) }); err != nil {
				c.Inconcl("localhost: " + err.Error())
			}
		}
	})
}

func testC04Sim(t *testing.T) {
	runPkt(t, "C04", "exploration", 40, 60, 70, func(pr *Profile, o *SimOpts) {
		pr.Timeout, pr.TimeoutEarly, pr.TimeoutReceived, pr.RecvAfterTimeout, pr.SoonPct, pr.Boundary = 12, 10, 8, 8, 60, 8
	}, map[string]int64{"cb_timeout": 60, "timeout_truth_elapsed": 50, "rejected_timeout": 60})
}

func TestC05(t *testing.T) {
	runPkt(t, "C05", "exploration", 40, 60, 70, func(pr *Profile, o *SimOpts) {
		pr.Mutate, pr.Replay, pr.Close, pr.Redirect, pr.Boundary, pr.SoonPct = 30, 10, 1, 8, 10, 50
	}, map[string]int64{"recv_matches_truth": 120, "mutants": 150, "rejected_recv": 100})
}

func TestC06(t *testing.T) {
	runPkt(t, "C06", "exploration", 40, 60, 70, func(pr *Profile, o *SimOpts) {
		pr.Mutate, pr.Ack, pr.AckDup = 30, 16, 8
	}, map[string]int64{"ack_matches_truth_ack": 100, "mutants": 120, "rejected_ack": 25})
}

func TestC08(t *testing.T) {
	runPkt(t, "C08", "exploration", 40, 60, 70, func(pr *Profile, o *SimOpts) {
		pr.Send, pr.SoonPct, pr.SendBoundary = 40, 30, 14
	}, map[string]int64{"sends_checked": 400, "send_guard_checks": 300, "send_boundary_rejected": 30, "send_boundary_accepted": 20})
}

func TestC11(t *testing.T) {
	runPkt(t, "C11", "exploration", 40, 60, 70, func(pr *Profile, o *SimOpts) {
		pr.AsyncAck, pr.Replay = 16, 10
	}, map[string]int64{"ack_writes_seen": 100, "async_acks_written_v2": 5})
}

func TestC14(t *testing.T) {
	runPkt(t, "C14", "exploration", 40, 60, 60, func(pr *Profile, o *SimOpts) {
		*o = SimOpts{Ordered: true}
		pr.Timeout, pr.SoonPct, pr.Close, pr.Reopen = 14, 60, 1, 6
	}, map[string]int64{"ordered_timeout_closes": 20, "closed_state_checks": 100, "reopen_attempts": 20})
}
