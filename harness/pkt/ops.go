package pkt

import (
	"fmt"
	"time"

	"github.com/cosmos/gogoproto/proto"

	sdk "github.com/cosmos/cosmos-sdk/types"

	clienttypes "github.com/cosmos/ibc-go/v11/modules/core/02-client/types"
	channeltypes "github.com/cosmos/ibc-go/v11/modules/core/04-channel/types"
	channeltypesv2 "github.com/cosmos/ibc-go/v11/modules/core/04-channel/v2/types"
	mockv2 "github.com/cosmos/ibc-go/v11/testing/mock/v2"

	"verif/harness/kit"
)

type timeT = time.Time

// Profile weights the operation alphabet of a case.
type Profile struct {
	Send, Recv, RecvDup, Ack, AckDup, Timeout, TimeoutEarly, TimeoutReceived, RecvAfterTimeout    int
	Replay, Mutate, AsyncAck, Commit, Close, OutOfOrder, Redirect, Boundary, SendBoundary, Reopen int
	SoonPct                                                                                       int // % of sends with a soon-expiring timeout
	MultiPayloadPct                                                                               int
}

func DefaultProfile() Profile {
	return Profile{Send: 20, Recv: 14, RecvDup: 6, Ack: 10, AckDup: 5, Timeout: 6, TimeoutEarly: 3, TimeoutReceived: 3, RecvAfterTimeout: 3,
		Replay: 8, Mutate: 12, AsyncAck: 4, Commit: 3, Close: 0, OutOfOrder: 3, Redirect: 3, Boundary: 4, SendBoundary: 3, SoonPct: 35, MultiPayloadPct: 30}
}

func (s *Sim) pick(f func(p *Pkt) bool) *Pkt {
	var c []*Pkt
	for _, p := range s.Pkts {
		if f(p) {
			c = append(c, p)
		}
	}
	if len(c) == 0 {
		return nil
	}
	return c[s.R.Intn(len(c))]
}

func (s *Sim) laneOpen(l *Lane) bool {
	return !l.ClosedByTimeout[0] && !l.ClosedByTimeout[1] && !l.ClosedByUs[0] && !l.ClosedByUs[1]
}

// orderedHead: on ORDERED lanes only the lowest unreceived sequence can be received.
func (s *Sim) isOrderedHead(p *Pkt) bool {
	if !p.L.Ordered {
		return true
	}
	for _, q := range s.Pkts {
		if q.L == p.L && q.Src == p.Src && q.Seq < p.Seq && !q.received() {
			return false
		}
	}
	return true
}

func (s *Sim) isOrderedAckHead(p *Pkt) bool {
	if !p.L.Ordered {
		return true
	}
	for _, q := range s.Pkts {
		if q.L == p.L && q.Src == p.Src && q.Seq < p.Seq && !q.terminal() {
			return false
		}
	}
	return true
}

func (p *Pkt) ackKnown() bool {
	if p.L.V2 {
		return p.AckV2 != nil
	}
	return p.AckV1 != nil
}

// Step performs one random operation; it returns a short class label for the abstract history.
func (s *Sim) Step(pr Profile) string {
	type op struct {
		w int
		f func() string
	}
	ops := []op{
		{pr.Send, func() string {
			l := s.Lanes[s.R.Intn(len(s.Lanes))]
			src := s.R.Intn(2)
			kind := kit.Pick(s.R, []string{"ok", "ok", "fail", "async"})
			np := 1
			if l.V2 && !l.Transfer && s.R.Intn(100) < pr.MultiPayloadPct {
				np = 2 + s.R.Intn(2)
			}
			p := s.Send(l, src, kind, s.R.Intn(100) < pr.SoonPct, np)
			if p == nil {
				return "send-rej"
			}
			return "send-" + l.Name
		}},
		{pr.Recv, func() string {
			p := s.pick(func(p *Pkt) bool { return !p.received() && !p.terminal() && s.isOrderedHead(p) && !s.elapsedOnDst(p) })
			if p == nil {
				return ""
			}
			o := s.HonestRecv(p)
			return "recv-" + okStr(o)
		}},
		{pr.OutOfOrder, func() string {
			p := s.pick(func(p *Pkt) bool { return p.L.Ordered && !p.received() && !p.terminal() && !s.isOrderedHead(p) })
			if p == nil {
				return ""
			}
			if err := s.update(p.L, p.dst()); err != nil {
				return ""
			}
			o := s.Relay(p.dst(), s.BuildRecv(p, 0, s.addr(p.dst())), &opMeta{kind: "recv", pkt: p, hostile: "out-of-order"})
			return "recv-ooo-" + okStr(o)
		}},
		{pr.OutOfOrder, func() string {
			// acknowledge a later packet of an ORDERED lane before its predecessor
			p := s.pick(func(p *Pkt) bool {
				return p.L.Ordered && p.received() && p.ackKnown() && !p.terminal() && !s.isOrderedAckHead(p)
			})
			if p == nil {
				return ""
			}
			if err := s.update(p.L, p.Src); err != nil {
				return ""
			}
			o := s.Relay(p.Src, s.BuildAck(p, 0, s.addr(p.Src)), &opMeta{kind: "ack", pkt: p, hostile: "out-of-order"})
			return "ack-ooo-" + okStr(o)
		}},
		{pr.RecvDup, func() string {
			p := s.pick(func(p *Pkt) bool { return p.received() })
			if p == nil {
				return ""
			}
			if s.R.Bool() {
				_ = s.update(p.L, p.dst())
			}
			var msg sdk.Msg
			if err := kit.Try(func() { msg = s.BuildRecv(p, 0, s.addr(p.dst())) }); err != nil {
				return ""
			}
			o := s.Relay(p.dst(), msg, &opMeta{kind: "recv", pkt: p, hostile: "duplicate"})
			return "recvdup-" + okStr(o) + respResult(o)
		}},
		{pr.Ack, func() string {
			p := s.pick(func(p *Pkt) bool { return p.received() && p.ackKnown() && !p.terminal() && s.isOrderedAckHead(p) })
			if p == nil {
				return ""
			}
			o := s.HonestAck(p)
			return "ack-" + okStr(o)
		}},
		{pr.AckDup, func() string {
			p := s.pick(func(p *Pkt) bool { return p.terminal() && p.ackKnown() })
			if p == nil {
				return ""
			}
			_ = s.update(p.L, p.Src)
			o := s.Relay(p.Src, s.BuildAck(p, 0, s.addr(p.Src)), &opMeta{kind: "ack", pkt: p, hostile: "duplicate"})
			return "ackdup-" + okStr(o) + respResult(o)
		}},
		{pr.Timeout, func() string {
			p := s.pick(func(p *Pkt) bool { return !p.received() && !p.terminal() && s.soon(p) })
			if p == nil {
				return ""
			}
			s.AdvanceDst(p)
			o := s.HonestTimeout(p, false)
			return "timeout-" + okStr(o)
		}},
		{pr.TimeoutEarly, func() string {
			p := s.pick(func(p *Pkt) bool { return !p.received() && !p.terminal() && !s.elapsedOnDst(p) })
			if p == nil {
				return ""
			}
			o := s.timeoutHostile(p, "early")
			return "timeout-early-" + okStr(o)
		}},
		{pr.TimeoutReceived, func() string {
			p := s.pick(func(p *Pkt) bool { return p.received() && !p.terminal() && s.soon(p) })
			if p == nil {
				return ""
			}
			s.AdvanceDst(p)
			o := s.timeoutHostile(p, "received")
			return "timeout-received-" + okStr(o)
		}},
		{pr.RecvAfterTimeout, func() string {
			p := s.pick(func(p *Pkt) bool {
				if p.received() {
					return false
				}
				for _, k := range p.Terminal {
					if k == "timeout" {
						return true
					}
				}
				return s.elapsedOnDst(p)
			})
			if p == nil {
				return ""
			}
			_ = s.update(p.L, p.dst())
			var msg sdk.Msg
			if err := kit.Try(func() { msg = s.BuildRecv(p, 0, s.addr(p.dst())) }); err != nil {
				return ""
			}
			o := s.Relay(p.dst(), msg, &opMeta{kind: "recv", pkt: p, hostile: "after-timeout"})
			return "recv-late-" + okStr(o)
		}},
		{pr.Replay, func() string {
			side := s.R.Intn(2)
			if len(s.hist[side]) == 0 {
				return ""
			}
			msg := s.hist[side][s.R.Intn(len(s.hist[side]))]
			k := msgKind(msg)
			o := s.Relay(side, proto.Clone(msg.(proto.Message)).(sdk.Msg), &opMeta{kind: k, hostile: "replay", pkt: nil})
			return "replay-" + k + "-" + okStr(o) + respResult(o)
		}},
		{pr.Mutate, func() string { return s.mutateOp() }},
		{pr.AsyncAck, func() string {
			p := s.pick(func(p *Pkt) bool { return p.received() })
			if p == nil {
				return ""
			}
			o := s.WriteAsyncAck(p, s.R.Intn(4) != 0)
			return "writeack-" + p.RecvResult + "-" + okStr(o)
		}},
		{pr.Commit, func() string {
			side := s.R.Intn(2)
			for i := 0; i < 1+s.R.Intn(3); i++ {
				s.Ch[side].Commit()
			}
			return "commit"
		}},
		{pr.Close, func() string { return s.closeOp() }},
		{pr.Redirect, func() string { return s.redirectOp() }},
		{pr.Reopen, func() string { return s.reopenOp() }},
		{pr.SendBoundary, func() string { return s.sendBoundaryOp() }},
		{pr.Boundary, func() string { return s.boundaryOp() }},
	}
	total := 0
	for _, o := range ops {
		total += o.w
	}
	x := s.R.Intn(total)
	for _, o := range ops {
		if x < o.w {
			var cls string
			if err := kit.Try(func() { cls = o.f() }); err != nil {
				s.log("op aborted: %v", err)
				s.C.Inc("op_aborts")
				return "abort"
			}
			return cls
		}
		x -= o.w
	}
	return ""
}

func okStr(o *kit.Outcome) string {
	if o == nil {
		return "nil"
	}
	if o.OK() {
		return "ok"
	}
	return "rej"
}

// soon: the packet's timeout is reachable by committing a handful of blocks.
func (s *Sim) soon(p *Pkt) bool {
	d := s.Ch[p.dst()]
	if p.L.V2 {
		return int64(p.V2.TimeoutTimestamp)-s.W.Coord.CurrentTime.Unix() < 120
	}
	if !p.V1.TimeoutHeight.IsZero() && int64(p.V1.TimeoutHeight.RevisionHeight)-d.App.LastBlockHeight() < 12 {
		return true
	}
	if p.V1.TimeoutTimestamp != 0 && int64(p.V1.TimeoutTimestamp)-s.W.Coord.CurrentTime.UnixNano() < int64(120*time.Second) {
		return true
	}
	return false
}

func (s *Sim) timeoutHostile(p *Pkt, label string) *kit.Outcome {
	if err := s.update(p.L, p.Src); err != nil {
		return nil
	}
	var msg sdk.Msg
	if err := kit.Try(func() { msg = s.BuildTimeout(p, 0, s.addr(p.Src), false) }); err != nil {
		return nil
	}
	return s.Relay(p.Src, msg, &opMeta{kind: "timeout", pkt: p, hostile: label})
}

// closeOp closes a mock channel end and tries timeout-on-close for an in-flight packet.
func (s *Sim) closeOp() string {
	var cands []*Lane
	for _, l := range s.Lanes {
		if !l.V2 && !l.Transfer && s.laneOpen(l) {
			cands = append(cands, l)
		}
	}
	if len(cands) == 0 {
		return ""
	}
	l := cands[s.R.Intn(len(cands))]
	side := s.R.Intn(2)
	var err error
	if e := kit.Try(func() { err = l.ep(side).ChanCloseInit() }); e != nil || err != nil {
		return "close-rej"
	}
	l.ClosedByUs[side] = true
	s.log("closed lane %s side %d", l.Name, side)
	// packets sent from the other side towards the closed end can be timed out on close
	p := s.pick(func(p *Pkt) bool { return p.L == l && p.Src == 1-side && !p.received() && !p.terminal() })
	if p != nil {
		o := s.HonestTimeout(p, true)
		return "close-toc-" + okStr(o)
	}
	return "close"
}

// reopenOp replays the last handshake step (with a fresh, honest proof of the counterparty end) on an end that was closed.
func (s *Sim) reopenOp() string {
	for _, l := range s.Lanes {
		if l.V2 {
			continue
		}
		for side := 0; side < 2; side++ {
			if !l.ClosedByTimeout[side] && !l.ClosedByUs[side] {
				continue
			}
			if err := s.update(l, side); err != nil {
				continue
			}
			var err error
			step := "confirm"
			if e := kit.Try(func() {
				if side == 1 {
					err = l.ep(side).ChanOpenConfirm()
				} else {
					step = "ack"
					err = l.ep(side).ChanOpenAck()
				}
			}); e != nil {
				continue
			}
			s.C.Inc("reopen_attempts")
			if err == nil {
				s.C.Inc("reopen_attempts_accepted")
				if l.ClosedByUs[side] && !l.ClosedByTimeout[side] {
					s.viol("C12", "closed-channel-reopened", "lane %s side %d: open-%s accepted on a CLOSED end", l.Name, side, step)
				}
			}
			return "reopen-" + step
		}
	}
	return ""
}

// redirectOp presents a packet really committed on one v1 channel to the destination end of ANOTHER channel of the
// same port (valid proof of the real commitment, packet unchanged except for the destination identifiers).
func (s *Sim) redirectOp() string {
	q := s.pick(func(q *Pkt) bool { return !q.L.V2 && !q.received() && !q.terminal() && !s.elapsedOnDst(q) })
	if q == nil {
		return ""
	}
	var other *Lane
	for _, l := range s.Lanes {
		if l != q.L && !l.V2 && l.port(q.dst()) == q.L.port(q.dst()) && s.laneOpen(l) {
			other = l
		}
	}
	if other == nil {
		return ""
	}
	// the proof is verified through the client of the channel the message names: bring that one up to date last
	if err := s.update(q.L, q.dst()); err != nil {
		return ""
	}
	if err := s.update(other, q.dst()); err != nil {
		return ""
	}
	msg := s.BuildRecv(q, 0, s.addr(q.dst())).(*channeltypes.MsgRecvPacket)
	msg.Packet.DestinationChannel = other.id(q.dst())
	o := s.Relay(q.dst(), msg, &opMeta{kind: "recv", pkt: q, hostile: "redirect-to-" + other.Name})
	s.C.Inc("redirects")
	return "redirect-" + okStr(o)
}

// sendBoundaryOp sends with a timeout exactly at / next to each send-time guard of C08.
func (s *Sim) sendBoundaryOp() string {
	l := s.Lanes[s.R.Intn(len(s.Lanes))]
	src := s.R.Intn(2)
	if !s.laneOpen(l) && !l.V2 {
		return ""
	}
	th, tt := clienttypes.ZeroHeight(), uint64(0)
	label := ""
	vh, vt, ok := s.clientView(l, src)
	if !ok {
		return ""
	}
	if l.V2 {
		bt := uint64(s.W.Coord.CurrentTime.Unix())
		ct := uint64(vt.Unix())
		opts := []struct {
			l string
			v uint64
		}{{"bt-1", bt - 1}, {"bt", bt}, {"bt+1", bt + 1}, {"bt+24h", bt + 86400}, {"bt+24h+1", bt + 86401}, {"client-time", ct}, {"client-time+1", ct + 1}}
		o := opts[s.R.Intn(len(opts))]
		tt, label = o.v, o.l
	} else if s.R.Intn(4) == 0 {
		// both timeouts set: one of them comfortably in the future, the other one at / next to the client's view
		if s.R.Bool() {
			d := int64(s.R.Intn(3)) - 1
			th = clienttypes.NewHeight(vh.RevisionNumber, vh.RevisionHeight+1000)
			tt = uint64(vt.UnixNano() + d)
			label = fmt.Sprintf("future-height+client-time%+dns", d)
		} else {
			d := int64(s.R.Intn(3)) - 1
			th = clienttypes.NewHeight(vh.RevisionNumber, uint64(int64(vh.RevisionHeight)+d))
			tt = uint64(vt.Add(1000 * time.Hour).UnixNano())
			label = fmt.Sprintf("client-height%+d+future-time", d)
		}
	} else if s.R.Intn(3) == 0 {
		// timeout heights of another revision: an earlier revision has passed whatever its height, a later one has not
		if s.R.Bool() && vh.RevisionNumber > 0 {
			th = clienttypes.NewHeight(vh.RevisionNumber-1, vh.RevisionHeight+uint64(1000+s.R.Intn(1000000)))
			label = "earlier-revision-greater-height"
		} else {
			th = clienttypes.NewHeight(vh.RevisionNumber+1, 1+uint64(s.R.Intn(3)))
			label = "later-revision-smaller-height"
		}
	} else if s.R.Bool() {
		d := int64(s.R.Intn(3)) - 1
		th = clienttypes.NewHeight(vh.RevisionNumber, uint64(int64(vh.RevisionHeight)+d))
		label = fmt.Sprintf("client-height%+d", d)
	} else {
		d := int64(s.R.Intn(3)) - 1
		tt = uint64(vt.UnixNano() + d)
		label = fmt.Sprintf("client-time%+dns", d)
	}
	s.forceTH, s.forceTT = &th, &tt
	p := s.Send(l, src, "ok", false, 1)
	s.forceTH, s.forceTT = nil, nil
	s.C.Inc("send_boundary_attempts")
	if p == nil {
		s.C.Inc("send_boundary_rejected")
		return "send-boundary-" + label + "-rej"
	}
	s.C.Inc("send_boundary_accepted")
	return "send-boundary-" + label + "-ok"
}

// boundaryOp relays a receive so that it executes exactly at (or one block before) the packet's timeout height / time.
func (s *Sim) boundaryOp() string {
	p := s.pick(func(p *Pkt) bool {
		return !p.received() && !p.terminal() && s.isOrderedHead(p) && !s.elapsedOnDst(p) && s.soon(p)
	})
	if p == nil {
		return ""
	}
	d := s.Ch[p.dst()]
	at := s.R.Bool() // true: execute exactly at the timeout (must be refused); false: one block before (must be accepted)
	// the receive executes two destination blocks from now (client update, then the receive itself)
	if !p.L.V2 && !p.V1.TimeoutHeight.IsZero() {
		target := int64(p.V1.TimeoutHeight.RevisionHeight)
		if !at {
			target--
		}
		for d.App.LastBlockHeight()+2 < target {
			d.Commit()
		}
		if d.App.LastBlockHeight()+2 != target {
			return ""
		}
	} else {
		var ts int64 // seconds
		if p.L.V2 {
			ts = int64(p.V2.TimeoutTimestamp)
		} else {
			ts = int64(p.V1.TimeoutTimestamp / 1_000_000_000)
		}
		target := ts
		if !at {
			target -= 5
		}
		for s.W.Coord.CurrentTime.Unix()+10 < target {
			d.Commit()
		}
		if s.W.Coord.CurrentTime.Unix()+10 != target {
			return ""
		}
	}
	if err := s.update(p.L, p.dst()); err != nil {
		return ""
	}
	label := "just-before-timeout"
	if at {
		label = "exactly-at-timeout"
	}
	o := s.Relay(p.dst(), s.BuildRecv(p, 0, s.addr(p.dst())), &opMeta{kind: "recv", pkt: p, hostile: label})
	s.C.Inc("boundary_" + label + "_" + okStr(o))
	return "boundary-" + label + "-" + okStr(o)
}

// mutateOp builds a fresh, valid packet message and alters one or more fields.
func (s *Sim) mutateOp() string {
	kind := kit.Pick(s.R, []string{"recv", "recv", "ack", "timeout"})
	var p *Pkt
	switch kind {
	case "recv":
		p = s.pick(func(p *Pkt) bool { return !p.received() && !p.terminal() && s.isOrderedHead(p) && !s.elapsedOnDst(p) })
	case "ack":
		p = s.pick(func(p *Pkt) bool { return p.received() && p.ackKnown() && !p.terminal() && s.isOrderedAckHead(p) })
	case "timeout":
		p = s.pick(func(p *Pkt) bool { return !p.received() && !p.terminal() && s.elapsedOnDst(p) })
	}
	if p == nil {
		return ""
	}
	side := p.dst()
	if kind != "recv" {
		side = p.Src
	}
	if err := s.update(p.L, side); err != nil {
		return ""
	}
	var msg sdk.Msg
	switch kind {
	case "recv":
		msg = s.BuildRecv(p, 0, s.addr(side))
	case "ack":
		msg = s.BuildAck(p, 0, s.addr(side))
	default:
		msg = s.BuildTimeout(p, 0, s.addr(side), false)
	}
	n := 1
	if s.R.Intn(5) == 0 {
		n = 2 + s.R.Intn(2)
	}
	label := ""
	for i := 0; i < n; i++ {
		label += "+" + s.mutate(msg, p)
	}
	o := s.Relay(side, msg, &opMeta{kind: kind, pkt: p, hostile: "mutant" + label})
	s.C.Inc("mutants")
	if o.OK() {
		s.C.Inc("mutants_accepted")
	}
	return "mut-" + kind + label + "-" + okStr(o)
}

func flip(r *kit.Rng, b []byte) []byte {
	c := append([]byte{}, b...)
	if len(c) == 0 {
		return []byte{1}
	}
	c[r.Intn(len(c))] ^= 1 << uint(r.Intn(8))
	return c
}

func bump(r *kit.Rng, x uint64) uint64 {
	if r.Bool() || x == 0 {
		return x + 1
	}
	return x - 1
}

func (s *Sim) otherLaneID(p *Pkt, side int) string {
	for _, l := range s.Lanes {
		if l != p.L && l.id(side) != p.L.id(side) {
			return l.id(side)
		}
	}
	return "channel-99"
}

// mutate alters one semantic field of msg in place and returns the label of the change.
func (s *Sim) mutate(msg sdk.Msg, p *Pkt) string {
	r := s.R
	otherPort := func(port string) string {
		switch port {
		case mockv2.PortIDA:
			return mockv2.PortIDB
		case mockv2.PortIDB:
			return mockv2.PortIDA
		case "transfer":
			return "mock"
		}
		return "transfer"
	}
	mutV1 := func(pk *channeltypes.Packet) string {
		k := r.Intn(12)
		if k >= 9 {
			k = 0 // the application data is the field a relayer is most interested in: a third of the v1 mutations
		}
		switch k {
		case 8:
			pk.DestinationPort = otherPort(pk.DestinationPort)
			return "dstport"
		case 0:
			pk.Data = flip(r, pk.Data)
			return "data"
		case 1:
			pk.TimeoutHeight = clienttypes.NewHeight(pk.TimeoutHeight.RevisionNumber, bump(r, pk.TimeoutHeight.RevisionHeight))
			return "theight"
		case 2:
			pk.TimeoutTimestamp = bump(r, pk.TimeoutTimestamp)
			return "ttime"
		case 3:
			pk.Sequence = bump(r, pk.Sequence)
			return "seq"
		case 4:
			pk.SourceChannel = s.otherLaneID(p, p.Src)
			return "srcchan"
		case 5:
			pk.DestinationChannel = s.otherLaneID(p, p.dst())
			return "dstchan"
		case 6:
			if pk.SourcePort == "transfer" {
				pk.SourcePort = "mock"
			} else {
				pk.SourcePort = "transfer"
			}
			return "srcport"
		default:
			pk.TimeoutHeight = clienttypes.NewHeight(pk.TimeoutHeight.RevisionNumber+1, pk.TimeoutHeight.RevisionHeight)
			return "trev"
		}
	}
	mutV2 := func(pk *channeltypesv2.Packet) string {
		k := r.Intn(14)
		if k >= 11 {
			k = 0
		}
		switch k {
		case 9:
			// the payload is handed to another registered application
			pls := append([]channeltypesv2.Payload{}, pk.Payloads...)
			i := r.Intn(len(pls))
			pls[i].DestinationPort = otherPort(pls[i].DestinationPort)
			pk.Payloads = pls
			return "payload-dstport"
		case 10:
			pls := append([]channeltypesv2.Payload{}, pk.Payloads...)
			i := r.Intn(len(pls))
			pls[i].SourcePort = otherPort(pls[i].SourcePort)
			pk.Payloads = pls
			return "payload-srcport"
		case 0:
			i := r.Intn(len(pk.Payloads))
			pl := pk.Payloads[i]
			pl.Value = flip(r, pl.Value)
			pk.Payloads = append(append(append([]channeltypesv2.Payload{}, pk.Payloads[:i]...), pl), pk.Payloads[i+1:]...)
			return "value"
		case 1:
			pk.TimeoutTimestamp = bump(r, pk.TimeoutTimestamp)
			return "ttime"
		case 2:
			pk.Sequence = bump(r, pk.Sequence)
			return "seq"
		case 3:
			pk.SourceClient = s.otherLaneID(p, p.Src)
			return "srcclient"
		case 4:
			pk.DestinationClient = s.otherLaneID(p, p.dst())
			return "dstclient"
		case 5:
			pls := append([]channeltypesv2.Payload{}, pk.Payloads...)
			pls[0].Version = pls[0].Version + "x"
			pk.Payloads = pls
			return "version"
		case 6:
			pls := append([]channeltypesv2.Payload{}, pk.Payloads...)
			pls[0].Encoding = pls[0].Encoding + "x"
			pk.Payloads = pls
			return "encoding"
		case 7:
			if len(pk.Payloads) > 1 {
				pls := append([]channeltypesv2.Payload{}, pk.Payloads...)
				pls[0], pls[1] = pls[1], pls[0]
				pk.Payloads = pls
				return "payload-order"
			}
			pk.Payloads = append(append([]channeltypesv2.Payload{}, pk.Payloads...), pk.Payloads[0])
			return "payload-dup"
		default:
			if len(pk.Payloads) > 1 {
				pk.Payloads = append([]channeltypesv2.Payload{}, pk.Payloads[:len(pk.Payloads)-1]...)
				return "payload-drop"
			}
			pk.TimeoutTimestamp = pk.TimeoutTimestamp + 3600
			return "ttime-far"
		}
	}
	mutProof := func(proof *[]byte, h *clienttypes.Height) string {
		switch r.Intn(4) {
		case 0:
			*proof = flip(r, *proof)
			return "proofbit"
		case 1:
			if len(*proof) > 4 {
				*proof = append([]byte{}, (*proof)[:len(*proof)/2]...)
			}
			return "prooftrunc"
		case 2:
			*h = clienttypes.NewHeight(h.RevisionNumber, bump(r, h.RevisionHeight))
			return "proofheight"
		default:
			// proof of another key: the commitment of another packet
			q := s.pick(func(q *Pkt) bool { return q != p && q.L.V2 == p.L.V2 })
			if q == nil {
				*proof = flip(r, *proof)
				return "proofbit"
			}
			if e := kit.Try(func() {
				m2 := s.BuildRecv(q, 0, "")
				switch x := m2.(type) {
				case *channeltypes.MsgRecvPacket:
					*proof = x.ProofCommitment
				case *channeltypesv2.MsgRecvPacket:
					*proof = x.ProofCommitment
				}
			}); e != nil {
				*proof = flip(r, *proof)
			}
			return "proofother"
		}
	}
	third := r.Intn(3)
	switch m := msg.(type) {
	case *channeltypes.MsgRecvPacket:
		if third == 0 {
			return mutProof(&m.ProofCommitment, &m.ProofHeight)
		}
		return mutV1(&m.Packet)
	case *channeltypes.MsgAcknowledgement:
		switch third {
		case 0:
			return mutProof(&m.ProofAcked, &m.ProofHeight)
		case 1:
			m.Acknowledgement = flip(r, m.Acknowledgement)
			return "ackbytes"
		}
		return mutV1(&m.Packet)
	case *channeltypes.MsgTimeout:
		switch third {
		case 0:
			return mutProof(&m.ProofUnreceived, &m.ProofHeight)
		case 1:
			m.NextSequenceRecv = bump(r, m.NextSequenceRecv)
			return "nextseqrecv"
		}
		return mutV1(&m.Packet)
	case *channeltypesv2.MsgRecvPacket:
		if third == 0 {
			return mutProof(&m.ProofCommitment, &m.ProofHeight)
		}
		return mutV2(&m.Packet)
	case *channeltypesv2.MsgAcknowledgement:
		switch third {
		case 0:
			return mutProof(&m.ProofAcked, &m.ProofHeight)
		case 1:
			a := m.Acknowledgement.AppAcknowledgements
			na := make([][]byte, len(a))
			copy(na, a)
			switch {
			case len(na) > 1 && r.Bool():
				na[0], na[1] = na[1], na[0]
				m.Acknowledgement.AppAcknowledgements = na
				return "ack-order"
			case r.Bool():
				m.Acknowledgement.AppAcknowledgements = append(na, []byte("extra"))
				return "ack-extra"
			default:
				na[0] = flip(r, na[0])
				m.Acknowledgement.AppAcknowledgements = na
				return "ackbytes"
			}
		}
		return mutV2(&m.Packet)
	case *channeltypesv2.MsgTimeout:
		if third == 0 {
			return mutProof(&m.ProofUnreceived, &m.ProofHeight)
		}
		return mutV2(&m.Packet)
	}
	return "none"
}

// Drain relays everything outstanding honestly so that end-state invariants are checked at quiescence.
func (s *Sim) Drain() {
	for round := 0; round < 3; round++ {
		for _, p := range s.Pkts {
			if p.terminal() {
				continue
			}
			_ = kit.Try(func() {
				if !p.received() {
					if !s.laneOpen(p.L) && !p.L.V2 {
						return
					}
					if s.elapsedOnDst(p) || !s.isOrderedHead(p) {
						if s.elapsedOnDst(p) {
							s.HonestTimeout(p, false)
						}
						return
					}
					s.HonestRecv(p)
				}
				if p.received() && !p.ackKnown() {
					s.WriteAsyncAck(p, true)
				}
				if p.received() && p.ackKnown() && !p.terminal() && s.isOrderedAckHead(p) && (s.laneOpen(p.L) || p.L.V2) {
					s.HonestAck(p)
				}
			})
		}
	}
}

// EndChecks are quiescent-point invariants over the whole truth log.
func (s *Sim) EndChecks() {
	for _, p := range s.Pkts {
		recvd, timedOut := p.received(), false
		for _, k := range p.Terminal {
			if k == "timeout" {
				timedOut = true
			}
		}
		if recvd && timedOut {
			s.viol("C04", "received-and-timed-out", "packet %s both received and timed out", p)
		}
		if p.terminal() {
			if c := s.commitment(p.Src, p); len(c) != 0 {
				s.viol("C03", "commitment-survives-terminal", "packet %s still committed at the end", p)
			}
		} else {
			// C07/C08: a live commitment equals the specification's formula
			c := s.commitment(p.Src, p)
			var want []byte
			if p.L.V2 {
				want = ModelCommitV2(p.V2)
			} else {
				want = ModelCommitV1(p.V1)
			}
			if len(c) != 0 && string(c) != string(want) {
				s.viol("C08", "commitment-differs-from-spec-formula", "packet %s commitment %x, specification formula gives %x", p, c, want)
			}
		}
	}
}

// Abstract returns a compact signature of the history (for distinct_nontrivial).
func abstract(classes []string) string {
	return fmt.Sprint(classes)
}
