#!/bin/bash
# usage: ./run.sh <PROP> quick|thorough            run the check of one property
#        ./run.sh <PROP> replay <replay.json>      re-run the single case recorded in a replay file
# Rebuilds the harness test binary from /repo's current working tree (VERIF_REPO to point at a scratch copy),
# runs TestCNN in one (quick) or several (thorough) child processes, merges their partial results into
# evidence/<PROP>.json and prints VIOLATION / KNOWN-FINDING / BROKEN-CHECK lines.
set -u
VROOT=$(cd "$(dirname "$(readlink -f "$0")")" && pwd)
cd "$VROOT"
. ./env.sh
PROP=${1:?property id}; TIER=${2:-quick}
SEED=${VERIF_SEED:-1}
declare -A PKG=(
 [C01]=pkt [C02]=pkt [C03]=pkt [C04]=pkt [C05]=pkt [C06]=pkt [C08]=pkt [C09]=pkt [C10]=pkt [C11]=pkt [C14]=pkt
 [C12]=hs [C13]=hs
 [C07]=pure [C15]=pure [C17]=pure [C34]=pure [C35]=pure [C47]=pure [C48]=pure
 [C16]=store [C18]=store [C19]=store
 [C20]=tm [C21]=tm [C22]=tm [C23]=tm [C24]=tm [C25]=tm
 [C26]=lc [C27]=lc [C28]=lc [C29]=wasm
 [C30]=xfer [C31]=xfer [C32]=xfer [C33]=xfer [C43]=xfer [C49]=xfer
 [C41]=rl [C42]=rl [C36]=authz
 [C37]=ica [C38]=ica [C39]=gmpcb [C40]=gmpcb
 [C44]=sys [C45]=sys [C46]=sys
)
pkg=${PKG[$PROP]:-}
[ -n "$pkg" ] || { echo "BROKEN-CHECK: unknown property $PROP"; exit 3; }

ONLY=""
if [ "$TIER" = replay ]; then
  f=${3:?replay file}
  SEED=$(jq -r .seed "$f"); ONLY=$(jq -r .case "$f"); RT=$(jq -r .tier "$f"); SH=$(jq -r .shard "$f"); NSH=$(jq -r .shards "$f")
  TIER=$RT; REPLAY_SHARD="$SH/$NSH"
fi

moddir=$VROOT/harness; modflag=""
if [ "$pkg" = wasm ]; then moddir=$VROOT/harness-wasm; fi
# VERIF_REPO=<dir>: build against a scratch copy of the repository (mutation trials); the go.mod replace is rewritten in a temp modfile
mkdir -p $VROOT/out
if [ -n "${VERIF_REPO:-}" ]; then
  mf=$(mktemp -d $VROOT/out/modXXXXXX)
  sed "s#=> /repo#=> $VERIF_REPO#g" $moddir/go.mod > $mf/go.mod; cp $moddir/go.sum $mf/go.sum
  modflag="-modfile=$mf/go.mod"
fi

OUT=$VROOT/out/$PROP.$TIER.$$; rm -rf "$OUT"; mkdir -p "$OUT" $VROOT/bin $VROOT/evidence/replays
BIN=$VROOT/bin/$pkg.$$.test
trap 'rm -f "$BIN"; [ -n "${mf:-}" ] && rm -rf "$mf"' EXIT
t0=$(date +%s)
( cd $moddir && go test -c $modflag -tags verif -o "$BIN" ./$pkg ) > "$OUT/build.log" 2>&1
if [ $? -ne 0 ] || [ ! -x "$BIN" ]; then
  echo "BROKEN-CHECK: property=$PROP harness does not build against the current tree"; tail -30 "$OUT/build.log"; exit 3
fi
t1=$(date +%s)

NSH=1; TMO=${VERIF_TIMEOUT:-1500}
if [ "$TIER" = thorough ]; then NSH=${VERIF_SHARDS:-12}; TMO=${VERIF_TIMEOUT:-5400}; fi
pids=()
for ((i=0;i<NSH;i++)); do
  shard="$i/$NSH"; [ -n "$ONLY" ] && shard="$REPLAY_SHARD"
  VERIF_OUT="$OUT" VERIF_SEED="$SEED" VERIF_TIER="$TIER" VERIF_SHARD="$shard" VERIF_ONLY_CASE="$ONLY" \
    timeout -s QUIT "$TMO" "$BIN" -test.run "^Test$PROP\$" -test.v -test.timeout 0 > "$OUT/shard$i.log" 2>&1 &
  pids+=($!)
  [ -n "$ONLY" ] && break
done
# extra part of a check that lives in another module (same property id, next shard number)
declare -A EXTRA=( [C46]=wasm )
xpkg=${EXTRA[$PROP]:-}
if [ -n "$xpkg" ] && [ -z "$ONLY" ]; then
  xdir=$VROOT/harness-wasm; XBIN=$VROOT/bin/$xpkg.$$.x.test; xflag=""
  if [ -n "${VERIF_REPO:-}" ]; then
    mfx=$(mktemp -d $VROOT/out/modXXXXXX); sed "s#=> /repo#=> $VERIF_REPO#g" $xdir/go.mod > $mfx/go.mod; cp $xdir/go.sum $mfx/go.sum; xflag="-modfile=$mfx/go.mod"
  fi
  if ( cd $xdir && go test -c $xflag -tags verif -o "$XBIN" ./$xpkg ) >> "$OUT/build.log" 2>&1; then
    VERIF_OUT="$OUT" VERIF_SEED="$SEED" VERIF_TIER="$TIER" VERIF_SHARD="$NSH/$((NSH+1))" \
      timeout -s QUIT "$TMO" "$XBIN" -test.run "^Test$PROP\$" -test.v -test.timeout 0 > "$OUT/shard$NSH.log" 2>&1 &
    pids+=($!)
  else
    echo "extra part does not build" > "$OUT/shard$NSH.log"
  fi
fi
for p in "${pids[@]}"; do wait "$p"; done
rm -f "${XBIN:-/nonexistent}"; [ -n "${mfx:-}" ] && rm -rf "$mfx"
t2=$(date +%s)
python3 $VROOT/merge.py "$PROP" "$TIER" "$SEED" "$OUT" "$((t1-t0))" "$((t2-t1))" "${ONLY:+replay}"
rc=$?
{ [ $rc -eq 0 ] || [ -n "${VERIF_EVIDENCE_DIR:-}" ]; } && [ -z "${VERIF_KEEP:-}" ] && rm -rf "$OUT"
exit $rc
