package wasm

import (
	"bytes"
	"fmt"
	"testing"

	sdk "github.com/cosmos/cosmos-sdk/types"

	clienttypes "github.com/cosmos/ibc-go/v11/modules/core/02-client/types"
	wasmtesting "github.com/cosmos/ibc-go/modules/light-clients/08-wasm/v11/testing"
	"github.com/cosmos/ibc-go/modules/light-clients/08-wasm/v11/types"

	"verif/harness/kit"
)

// TestC46 covers the 08-wasm part of C46: code storage, checksum removal and contract migration succeed only for the
// authority. Strangers sign real transactions; the authority's messages are dispatched through the message router.
// The main matrix of C46 lives in verif/harness/sys; run.sh runs this test as an extra shard of the same check.
func TestC46(t *testing.T) {
	c := kit.NewCheck(t, "C46", "exploration", "08-wasm part: {store code, remove checksum, migrate contract} x {authority via router, stranger via signed tx, stranger naming the authority}; distinct = (operation, signer class, outcome) cells")
	defer c.Finish()
	c.Floor("wasm_attempts", 9)
	w := newWChain(t)
	r := c.CaseRng(0)
	auth := w.authority()
	stranger := w.tc.SenderAccounts[5]
	strangerAddr := stranger.SenderAccount.GetAddress().String()

	snapshot := func() map[string][]byte {
		m := cloneMap(w.ibcStore())
		return m
	}
	attempt := func(op, cls string, mk func(signer string) sdk.Msg) bool {
		before := snapshot()
		var err error
		switch cls {
		case "authority":
			msg := mk(auth)
			h := w.app.MsgServiceRouter().Handler(msg)
			err = w.inBlock(func(ctx sdk.Context) error { _, e := h(ctx, msg); return e })
		case "stranger":
			_, err = w.tc.SendMsgsWithSender(stranger, mk(strangerAddr))
		default: // stranger naming the authority as signer
			_, err = w.tc.SendMsgsWithSender(stranger, mk(auth))
		}
		// keep the library's cached sequence in step with the chain (a tx rejected before the ante handler consumes none)
		if acc := w.app.AccountKeeper.GetAccount(w.tc.GetContext(), stranger.SenderAccount.GetAddress()); acc != nil {
			_ = stranger.SenderAccount.SetSequence(acc.GetSequence())
		}
		ok := err == nil
		c.Inc("wasm_attempts")
		c.Eval(fmt.Sprintf("wasm|%s|%s|ok=%v", op, cls, ok))
		if ok && cls != "authority" {
			c.Violate("C46|"+op+"|accepted-for-"+cls, fmt.Sprintf("08-wasm %s succeeded when signed by %s", op, cls), nil)
		}
		if !ok {
			c.Inc("wasm_rejected_" + cls)
			if same, diff := sameMap(before, snapshot()); !same {
				c.Violate("C46|"+op+"|rejected-but-changed-state", fmt.Sprintf("rejected 08-wasm %s by %s changed the ibc store: %s", op, cls, diff), nil)
			}
		} else {
			c.Inc("wasm_accepted_" + cls)
		}
		return ok
	}

	code := func(tag byte) []byte { return append(bytes.Clone(wasmtesting.Code), tag, byte(r.Intn(250))) }
	for round := 0; round < c.N(2, 4); round++ {
		// store code
		for _, cls := range []string{"stranger", "stranger-naming-authority", "authority"} {
			bz := code(byte(round))
			attempt("wasm-store-code", cls, func(s string) sdk.Msg { return types.NewMsgStoreCode(s, bz) })
		}
		// a client on a first checksum, a second checksum to migrate to
		var cs1, cs2 []byte
		_ = w.inBlock(func(ctx sdk.Context) error {
			r1, e := w.app.WasmClientKeeper.StoreCode(ctx, types.NewMsgStoreCode(auth, code(100+byte(round))))
			if e != nil {
				return e
			}
			r2, e := w.app.WasmClientKeeper.StoreCode(ctx, types.NewMsgStoreCode(auth, code(200+byte(round))))
			if e != nil {
				return e
			}
			cs1, cs2 = r1.Checksum, r2.Checksum
			return nil
		})
		if cs1 == nil {
			c.Inconcl("could not store code")
			continue
		}
		w.checksum = cs1
		var clientID string
		if err := kit.Try(func() { clientID = w.createClient(clienttypes.NewHeight(1, uint64(10+round))) }); err != nil || clientID == "" {
			c.Inconcl("could not create wasm client")
			continue
		}
		for _, cls := range []string{"stranger", "stranger-naming-authority", "authority"} {
			attempt("wasm-migrate-contract", cls, func(s string) sdk.Msg {
				return types.NewMsgMigrateContract(s, clientID, cs2, []byte("{}"))
			})
		}
		for _, cls := range []string{"stranger", "stranger-naming-authority", "authority"} {
			attempt("wasm-remove-checksum", cls, func(s string) sdk.Msg { return types.NewMsgRemoveChecksum(s, cs1) })
		}
	}
	c.Sample(map[string]any{"operations": []string{"wasm-store-code", "wasm-migrate-contract", "wasm-remove-checksum"}, "signer_classes": []string{"authority", "stranger", "stranger-naming-authority"}})
}
