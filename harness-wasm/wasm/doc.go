// Package wasm holds the runtime monitor of property C29 (08-wasm client recovery store isolation).
package wasm
