package wasm

import (
	"bytes"
	"encoding/json"
	"fmt"
	"os"
	"sort"
	"strings"
	"testing"

	wasmvm "github.com/CosmWasm/wasmvm/v3"
	wasmvmtypes "github.com/CosmWasm/wasmvm/v3/types"
	dbm "github.com/cosmos/cosmos-db"

	"cosmossdk.io/log/v2"

	simtestutil "github.com/cosmos/cosmos-sdk/testutil/sims"
	sdk "github.com/cosmos/cosmos-sdk/types"
	authtypes "github.com/cosmos/cosmos-sdk/x/auth/types"
	govtypes "github.com/cosmos/cosmos-sdk/x/gov/types"

	wasmtesting "github.com/cosmos/ibc-go/modules/light-clients/08-wasm/v11/testing"
	"github.com/cosmos/ibc-go/modules/light-clients/08-wasm/v11/testing/simapp"
	"github.com/cosmos/ibc-go/modules/light-clients/08-wasm/v11/types"
	clienttypes "github.com/cosmos/ibc-go/v11/modules/core/02-client/types"
	host "github.com/cosmos/ibc-go/v11/modules/core/24-host"
	"github.com/cosmos/ibc-go/v11/modules/core/exported"
	ibctm "github.com/cosmos/ibc-go/v11/modules/light-clients/07-tendermint"
	ibctesting "github.com/cosmos/ibc-go/v11/testing"

	"verif/harness/kit"
)

const c29Rule = "cases = a fresh (subject, substitute) pair of 08-wasm clients on the wasm simapp with a mock engine, both stores pre-seeded with overlapping PRNG keys; each case runs 2-3 real client recoveries (MsgRecoverClient handled by the " +
	"msg server) whose contract callback executes a PRNG list of get/set/delete/iterate/reverse-iterate operations on the store it is handed, with keys/bounds that carry the subject/ or substitute/ prefix, none, a mixed or near-miss " +
	"prefix, are empty, exactly the prefix, or end in 0xff; the same list runs against a plain two-map reference model; recoveries end with a valid client state (committed), a contract error or an invalid final state (rolled back); " +
	"distinct = (operation, key/bound class, hit or miss)"

const (
	subjectPfx    = "subject/"
	substitutePfx = "substitute/"
)

// ---------------------------------------------------------------------------------------------
// reference model (workload B): two plain maps and a flat key space

type kvModel struct {
	subj, subst map[string][]byte
}

func splitPfx(key []byte) (string, []byte) {
	switch {
	case bytes.HasPrefix(key, []byte(subjectPfx)):
		return subjectPfx, key[len(subjectPfx):]
	case bytes.HasPrefix(key, []byte(substitutePfx)):
		return substitutePfx, key[len(substitutePfx):]
	}
	return "", key
}

func (m *kvModel) of(p string) map[string][]byte {
	switch p {
	case subjectPfx:
		return m.subj
	case substitutePfx:
		return m.subst
	}
	return nil
}

func (m *kvModel) get(key []byte) []byte {
	p, k := splitPfx(key)
	if mm := m.of(p); mm != nil {
		return mm[string(k)]
	}
	return nil
}

func (m *kvModel) set(key, val []byte) {
	if p, k := splitPfx(key); p == subjectPfx {
		m.subj[string(k)] = val
	}
}

func (m *kvModel) del(key []byte) {
	if p, k := splitPfx(key); p == subjectPfx {
		delete(m.subj, string(k))
	}
}

type kvPair struct{ K, V []byte }

// iterate lists the pairs of the one store both bounds name, start <= k < end in the flat key space, ascending or descending;
// bounds that do not carry one and the same prefix give nothing.
func (m *kvModel) iterate(start, end []byte, reverse bool) []kvPair {
	ps, ks := splitPfx(start)
	pe, ke := splitPfx(end)
	mm := m.of(ps)
	if ps != pe || mm == nil {
		return nil
	}
	var keys []string
	for k := range mm {
		if bytes.Compare([]byte(k), ks) >= 0 && bytes.Compare([]byte(k), ke) < 0 {
			keys = append(keys, k)
		}
	}
	sort.Strings(keys)
	if reverse {
		for i, j := 0, len(keys)-1; i < j; i, j = i+1, j-1 {
			keys[i], keys[j] = keys[j], keys[i]
		}
	}
	out := make([]kvPair, len(keys))
	for i, k := range keys {
		out[i] = kvPair{[]byte(k), mm[k]}
	}
	return out
}

// ---------------------------------------------------------------------------------------------
// operations

type op struct {
	Kind       string // get | set | delete | iter | riter
	Key, Val   []byte
	Start, End []byte
	NilStart   bool
	NilEnd     bool
	Class      string
	// results of the real run
	got      []byte
	gotPairs []kvPair
	panicked string
}

type keyGen struct {
	r    *kit.Rng
	pool [][]byte // underlying keys likely to exist in either store
}

func (g *keyGen) inner() []byte {
	r := g.r
	switch r.Intn(6) {
	case 0, 1, 2:
		return bytes.Clone(kit.Pick(r, g.pool))
	case 3:
		return append(bytes.Clone(kit.Pick(r, g.pool)), 0xff)
	case 4:
		return append(r.Bytes(1+r.Intn(4)), bytes.Repeat([]byte{0xff}, r.Intn(3))...)
	default:
		return []byte(kit.Pick(r, []string{"a", "b", "k/1", "k/2", "zz", "subject/x", "substitute/x"}))
	}
}

// key returns a key/bound and its class.
func (g *keyGen) key() ([]byte, string) {
	r := g.r
	switch r.Intn(16) {
	case 0, 1, 2, 3, 4:
		return append([]byte(subjectPfx), g.inner()...), "subject"
	case 5, 6, 7, 8:
		return append([]byte(substitutePfx), g.inner()...), "substitute"
	case 9:
		return g.inner(), "none"
	case 10:
		if r.Bool() {
			return append([]byte(subjectPfx+substitutePfx), g.inner()...), "mixed-subj-subst"
		}
		return append([]byte(substitutePfx+subjectPfx), g.inner()...), "mixed-subst-subj"
	case 11:
		p := kit.Pick(r, []string{"subject", "substitute", "Subject/", "SUBSTITUTE/", "subjec", "/subject/", " subject/", "subject\\", "substitut/", "subject0", "substitute0"})
		return append([]byte(p), g.inner()...), "near-miss"
	case 12:
		return []byte{}, "empty"
	case 13:
		return []byte(kit.Pick(r, []string{subjectPfx, substitutePfx})), "bare-prefix"
	case 14:
		return append([]byte(kit.Pick(r, []string{subjectPfx, substitutePfx})), bytes.Repeat([]byte{0xff}, 1+r.Intn(3))...), "prefix+ff"
	default:
		return append([]byte(kit.Pick(r, []string{subjectPfx, substitutePfx})), 0x00), "prefix+00"
	}
}

func genOps(r *kit.Rng, pool [][]byte, n int) []*op {
	g := &keyGen{r: r, pool: pool}
	ops := make([]*op, 0, n)
	for i := 0; i < n; i++ {
		o := &op{}
		switch k := r.Intn(10); {
		case k < 3:
			o.Kind = "get"
			o.Key, o.Class = g.key()
		case k < 5:
			o.Kind = "set"
			o.Key, o.Class = g.key()
			o.Val = r.Bytes(1 + r.Intn(12))
		case k < 7:
			o.Kind = "delete"
			o.Key, o.Class = g.key()
		default:
			o.Kind = "iter"
			if r.Bool() {
				o.Kind = "riter"
			}
			var c1, c2 string
			o.Start, c1 = g.key()
			if r.Chance(3, 5) {
				// the matching upper bound of the same prefix
				p, _ := splitPfx(o.Start)
				if p == "" {
					o.End, c2 = g.key()
				} else if r.Bool() {
					o.End, c2 = append([]byte(p), bytes.Repeat([]byte{0xff}, 1+r.Intn(3))...), "same-prefix-top"
				} else {
					o.End, c2 = append([]byte(p), g.inner()...), "same-prefix"
				}
			} else {
				o.End, c2 = g.key()
			}
			if r.Chance(1, 12) {
				o.Start, o.NilStart, c1 = nil, true, "nil"
			}
			if r.Chance(1, 12) {
				o.End, o.NilEnd, c2 = nil, true, "nil"
			}
			o.Class = c1 + ".." + c2
		}
		ops = append(ops, o)
	}
	return ops
}

// runReal executes the operations against the store handed to the contract.
func runReal(store wasmvm.KVStore, ops []*op) {
	for _, o := range ops {
		func() {
			defer func() {
				if rec := recover(); rec != nil {
					o.panicked = fmt.Sprint(rec)
				}
			}()
			switch o.Kind {
			case "get":
				o.got = bytes.Clone(store.Get(o.Key))
			case "set":
				store.Set(o.Key, o.Val)
			case "delete":
				store.Delete(o.Key)
			case "iter", "riter":
				var it wasmvmtypes.Iterator
				if o.Kind == "iter" {
					it = store.Iterator(o.Start, o.End)
				} else {
					it = store.ReverseIterator(o.Start, o.End)
				}
				o.gotPairs = []kvPair{}
				func() {
					defer func() {
						// a closed iterator may refuse Valid(); that is "nothing to read"
						if rec := recover(); rec != nil && len(o.gotPairs) > 0 {
							panic(rec)
						}
					}()
					for ; it.Valid(); it.Next() {
						o.gotPairs = append(o.gotPairs, kvPair{bytes.Clone(it.Key()), bytes.Clone(it.Value())})
						if len(o.gotPairs) > 10000 {
							break
						}
					}
				}()
				func() {
					defer func() { _ = recover() }()
					it.Close()
				}()
			}
		}()
	}
}

// ---------------------------------------------------------------------------------------------
// chain driver on the wasm simapp

type wchain struct {
	t     *testing.T
	coord *ibctesting.Coordinator
	tc    *ibctesting.TestChain
	app   *simapp.SimApp
	vm    *wasmtesting.MockWasmEngine
	// harness-controlled status per client id
	frozen   map[string]bool
	checksum types.Checksum
}

func newWChain(t *testing.T) *wchain {
	w := &wchain{t: t, frozen: map[string]bool{}}
	w.vm = wasmtesting.NewMockWasmEngine()
	creator := func() (ibctesting.TestingApp, map[string]json.RawMessage) {
		app := simapp.NewUnitTestSimApp(log.NewNopLogger(), dbm.NewMemDB(), true, simtestutil.EmptyAppOptions{}, w.vm)
		return app, app.DefaultGenesis()
	}
	w.vm.InstantiateFn = func(checksum wasmvm.Checksum, env wasmvmtypes.Env, info wasmvmtypes.MessageInfo, initMsg []byte, store wasmvm.KVStore, goapi wasmvm.GoAPI, querier wasmvm.Querier, gasMeter wasmvm.GasMeter, gasLimit uint64, deserCost wasmvmtypes.UFraction) (*wasmvmtypes.ContractResult, uint64, error) {
		var payload types.InstantiateMessage
		if err := json.Unmarshal(initMsg, &payload); err != nil {
			return nil, 0, err
		}
		cdc := w.app.AppCodec()
		wrapped := clienttypes.MustUnmarshalClientState(cdc, payload.ClientState).(*ibctm.ClientState)
		cs := types.NewClientState(payload.ClientState, payload.Checksum, wrapped.LatestHeight)
		store.Set(host.ClientStateKey(), clienttypes.MustMarshalClientState(cdc, cs))
		store.Set(host.ConsensusStateKey(cs.LatestHeight), clienttypes.MustMarshalConsensusState(cdc, types.NewConsensusState(payload.ConsensusState)))
		resp, _ := json.Marshal(types.EmptyResult{})
		return &wasmvmtypes.ContractResult{Ok: &wasmvmtypes.Response{Data: resp}}, 0, nil
	}
	w.vm.RegisterQueryCallback(types.StatusMsg{}, func(checksum wasmvm.Checksum, env wasmvmtypes.Env, queryMsg []byte, store wasmvm.KVStore, goapi wasmvm.GoAPI, querier wasmvm.Querier, gasMeter wasmvm.GasMeter, gasLimit uint64, deserCost wasmvmtypes.UFraction) (*wasmvmtypes.QueryResult, uint64, error) {
		st := exported.Active
		if w.frozen[env.Contract.Address] {
			st = exported.Frozen
		}
		resp, _ := json.Marshal(types.StatusResult{Status: st.String()})
		return &wasmvmtypes.QueryResult{Ok: resp}, wasmtesting.DefaultGasUsed, nil
	})
	w.coord = ibctesting.NewCustomAppCoordinator(t, 1, creator)
	w.tc = w.coord.GetChain(ibctesting.GetChainID(1))
	w.tc.TB = kit.PanicTB{TB: t}
	w.app = w.tc.App.(*simapp.SimApp)
	return w
}

func (w *wchain) authority() string { return authtypes.NewModuleAddress(govtypes.ModuleName).String() }

// inBlock runs f in a cached context of the next block, keeps its writes only when it returns nil, and commits.
func (w *wchain) inBlock(f func(ctx sdk.Context) error) (err error) {
	ctx := w.tc.GetContext()
	cctx, write := ctx.CacheContext()
	if perr := kit.TryAll(func() { err = f(cctx) }); perr != nil {
		err = perr
	}
	if err == nil {
		write()
	}
	w.coord.CommitBlock(w.tc)
	return err
}

func (w *wchain) ibcStore() map[string][]byte {
	m := map[string][]byte{}
	it := w.app.CommitMultiStore().GetKVStore(w.app.GetKey(exported.StoreKey)).Iterator(nil, nil)
	defer it.Close()
	for ; it.Valid(); it.Next() {
		m[string(it.Key())] = bytes.Clone(it.Value())
	}
	return m
}

func sub(m map[string][]byte, prefix string) map[string][]byte {
	out := map[string][]byte{}
	for k, v := range m {
		if strings.HasPrefix(k, prefix) {
			out[k[len(prefix):]] = v
		}
	}
	return out
}

func without(m map[string][]byte, prefixes ...string) map[string][]byte {
	out := map[string][]byte{}
outer:
	for k, v := range m {
		for _, p := range prefixes {
			if strings.HasPrefix(k, p) {
				continue outer
			}
		}
		out[k] = v
	}
	return out
}

func sameMap(a, b map[string][]byte) (bool, string) {
	for k, v := range a {
		w, ok := b[k]
		if !ok {
			return false, fmt.Sprintf("key %q missing", k)
		}
		if !bytes.Equal(v, w) {
			return false, fmt.Sprintf("key %q: %x vs %x", k, trunc(v), trunc(w))
		}
	}
	for k := range b {
		if _, ok := a[k]; !ok {
			return false, fmt.Sprintf("key %q extra", k)
		}
	}
	return true, ""
}

func trunc(b []byte) []byte {
	if len(b) > 16 {
		return b[:16]
	}
	return b
}

func cloneMap(m map[string][]byte) map[string][]byte {
	out := make(map[string][]byte, len(m))
	for k, v := range m {
		out[k] = v
	}
	return out
}

func (w *wchain) createClient(height clienttypes.Height) string {
	cdc := w.app.AppCodec()
	wrappedCS := clienttypes.MustMarshalClientState(cdc, wasmtesting.CreateMockTendermintClientState(height))
	wrappedCons := clienttypes.MustMarshalConsensusState(cdc, wasmtesting.MockTendermintClientConsensusState)
	msg, err := clienttypes.NewMsgCreateClient(types.NewClientState(wrappedCS, w.checksum, height), types.NewConsensusState(wrappedCons), w.tc.SenderAccount.GetAddress().String())
	if err != nil {
		panic(kit.Abort{Msg: err.Error()})
	}
	res, err := w.tc.SendMsgs(msg)
	if err != nil {
		panic(kit.Abort{Msg: err.Error()})
	}
	id, err := ibctesting.ParseClientIDFromEvents(res.Events)
	if err != nil {
		panic(kit.Abort{Msg: err.Error()})
	}
	return id
}

func (w *wchain) validClientStateBz(height clienttypes.Height) []byte {
	cdc := w.app.AppCodec()
	wrappedCS := clienttypes.MustMarshalClientState(cdc, wasmtesting.CreateMockTendermintClientState(height))
	return clienttypes.MustMarshalClientState(cdc, types.NewClientState(wrappedCS, w.checksum, height))
}

// ---------------------------------------------------------------------------------------------

func TestC29(t *testing.T) {
	c := kit.NewCheck(t, "C29", "exploration", c29Rule)
	defer c.Finish()
	// the wasm simapp creates a relative "data" directory: keep it out of the caller's working directory
	if wd, err := os.Getwd(); err == nil {
		if os.Chdir(t.TempDir()) == nil {
			defer func() { _ = os.Chdir(wd) }()
		}
	}
	c.Assume("the contract is represented by the mock engine's sudo callback; the store object handed to it is the one the real RecoverClient path builds")
	c.Assume("get/set/delete of a key that is exactly a prefix (empty remainder) and inverted ranges are outside the statement: the store layer may refuse them; they are only required not to touch the substitute")
	for k, v := range map[string]int64{
		"recoveries": 160, "recoveries_committed": 110, "recoveries_rolled_back": 25, "ops": 10000, "get_hit_subject": 300, "get_hit_substitute": 220, "get_unprefixed_empty": 320,
		"set_subject": 900, "set_ignored": 1000, "delete_subject_hit": 200, "delete_ignored": 1000, "iter_nonempty": 850, "iter_inconsistent_empty": 1100, "iter_consistent_empty": 100,
		"substitute_unchanged_checks": 160, "edge_ops": 1000,
	} {
		c.Floor(k, v)
	}
	w := newWChain(t)
	if err := kit.Try(func() {
		err := w.inBlock(func(ctx sdk.Context) error {
			resp, err := w.app.WasmClientKeeper.StoreCode(ctx, types.NewMsgStoreCode(w.authority(), wasmtesting.Code))
			if err == nil {
				w.checksum = resp.Checksum
			}
			return err
		})
		if err != nil {
			panic(kit.Abort{Msg: "store code: " + err.Error()})
		}
	}); err != nil {
		c.Inconcl("setup: " + err.Error())
		return
	}

	n := c.N(200, 900)
	for i := 0; i < n; i++ {
		if c.SkipCase(i) {
			continue
		}
		r := c.CaseRng(i)
		c.Inc("cases")
		err := kit.Try(func() { c29Case(c, w, r, i) })
		if err != nil {
			c.Inconcl(err.Error())
		}
	}
}

func c29Case(c *kit.Check, w *wchain, r *kit.Rng, caseNo int) {
	subjH, substH := clienttypes.NewHeight(1, 5), clienttypes.NewHeight(1, 10+uint64(r.Intn(10)))
	subject := w.createClient(subjH)
	substitute := w.createClient(substH)
	bystander := ""
	if r.Bool() {
		bystander = w.createClient(clienttypes.NewHeight(1, 7))
	}
	w.frozen[subject] = true
	subjPfx, substPfx := "clients/"+subject+"/", "clients/"+substitute+"/"
	ck := w.app.IBCKeeper.ClientKeeper

	// pre-seed both stores with overlapping keys (harness writes, before monitoring starts)
	pool := [][]byte{host.ClientStateKey(), host.ConsensusStateKey(subjH), host.ConsensusStateKey(substH)}
	for k := 0; k < 6+r.Intn(6); k++ {
		pool = append(pool, append([]byte(kit.Pick(r, []string{"k/", "meta/", "", "subject/", "substitute/", "\xff"})), r.Bytes(1+r.Intn(3))...))
	}
	if err := w.inBlock(func(ctx sdk.Context) error {
		for _, id := range []string{subject, substitute} {
			st := ck.ClientStore(ctx, id)
			for _, k := range pool[3:] {
				if r.Chance(2, 3) {
					st.Set(k, append([]byte(id[len(id)-1:]+":"), r.Bytes(1+r.Intn(6))...))
				}
			}
		}
		return nil
	}); err != nil {
		panic(kit.Abort{Msg: "seed: " + err.Error()})
	}

	nrec := 2 + r.Intn(2)
	for rec := 0; rec < nrec; rec++ {
		before := w.ibcStore()
		model := &kvModel{subj: cloneMap(sub(before, subjPfx)), subst: cloneMap(sub(before, substPfx))}
		ops := genOps(r, pool, 40+r.Intn(50))
		ending := "valid"
		switch r.Intn(8) {
		case 0:
			ending = "contract-error"
		case 1:
			ending = "invalid-final-state"
		}
		switch ending {
		case "valid":
			ops = append(ops, &op{Kind: "set", Key: append([]byte(subjectPfx), host.ClientStateKey()...), Val: w.validClientStateBz(subjH), Class: "subject"})
		case "invalid-final-state":
			ops = append(ops, &op{Kind: "set", Key: append([]byte(subjectPfx), host.ClientStateKey()...), Val: []byte("garbage"), Class: "subject"})
		}
		called := 0
		var sameStoreTwice bool
		w.vm.RegisterSudoCallback(types.MigrateClientStoreMsg{}, func(_ wasmvm.Checksum, env wasmvmtypes.Env, sudoMsg []byte, store wasmvm.KVStore, _ wasmvm.GoAPI, _ wasmvm.Querier, _ wasmvm.GasMeter, _ uint64, _ wasmvmtypes.UFraction) (*wasmvmtypes.ContractResult, uint64, error) {
			called++
			if called > 1 {
				sameStoreTwice = true
			}
			runReal(store, ops)
			if ending == "contract-error" {
				return &wasmvmtypes.ContractResult{Err: "verif: contract refuses"}, wasmtesting.DefaultGasUsed, nil
			}
			resp, _ := json.Marshal(types.EmptyResult{})
			return &wasmvmtypes.ContractResult{Ok: &wasmvmtypes.Response{Data: resp}}, wasmtesting.DefaultGasUsed, nil
		})
		msg := clienttypes.NewMsgRecoverClient(w.authority(), subject, substitute)
		rerr := w.inBlock(func(ctx sdk.Context) error {
			_, err := w.app.IBCKeeper.RecoverClient(ctx, msg)
			return err
		})
		c.Inc("recoveries")
		if called != 1 || sameStoreTwice {
			c.Inconcl(fmt.Sprintf("sudo callback ran %d times (err=%v)", called, rerr))
			return
		}
		after := w.ibcStore()

		// --- workload B and the op-by-op comparison of reads
		good := judgeOps(c, model, ops)
		// --- T-kv: the committed stores
		committed := rerr == nil
		switch {
		case ending == "valid" && !committed:
			// a panic escaping an operation, or the post-execution validation refusing: not a verdict on isolation, but unexpected
			c.Inconcl("recovery with a valid final state failed: " + rerr.Error())
			committed = false
		case ending != "valid" && committed:
			c.Inconcl("recovery expected to fail (" + ending + ") succeeded")
		}
		if committed {
			c.Inc("recoveries_committed")
		} else {
			c.Inc("recoveries_rolled_back")
		}
		if ok, why := sameMap(sub(before, substPfx), sub(after, substPfx)); !ok {
			c.Violate("C29|substitute-store-modified", fmt.Sprintf("the substitute client's store changed during recovery (%s; committed=%v)", why, committed), map[string]any{"subject": subject, "substitute": substitute, "ops": describe(ops, 30)})
			good = false
		} else {
			c.Inc("substitute_unchanged_checks")
		}
		if ok, why := sameMap(without(before, subjPfx, substPfx), without(after, subjPfx, substPfx)); !ok {
			c.Violate("C29|write-outside-subject-store", fmt.Sprintf("recovery changed ibc state outside both client stores (%s)", why), map[string]any{"bystander": bystander})
			good = false
		}
		wantSubj := sub(before, subjPfx)
		if committed {
			wantSubj = model.subj
		}
		if ok, why := sameMap(wantSubj, sub(after, subjPfx)); !ok {
			c.Violate("C29|subject-store-differs-from-model", fmt.Sprintf("subject store after recovery differs from the reference model (%s; committed=%v)", why, committed), map[string]any{"ops": describe(ops, 30)})
			good = false
		}
		if caseNo < 2 && rec == 0 {
			c.Sample(map[string]any{"case": c.CaseID(caseNo), "ending": ending, "ops": describe(ops, 14)})
		}
		if !good {
			return
		}
	}
}

func describe(ops []*op, n int) []string {
	var out []string
	for i, o := range ops {
		if i >= n {
			break
		}
		switch o.Kind {
		case "iter", "riter":
			out = append(out, fmt.Sprintf("%s %q..%q [%s] -> %d pairs %s", o.Kind, o.Start, o.End, o.Class, len(o.gotPairs), o.panicked))
		default:
			out = append(out, fmt.Sprintf("%s %q [%s] -> %x %s", o.Kind, o.Key, o.Class, trunc(o.got), o.panicked))
		}
	}
	return out
}

// judgeOps replays the list against the model and compares every read. It advances the model.
func judgeOps(c *kit.Check, m *kvModel, ops []*op) bool {
	good := true
	for idx, o := range ops {
		c.Inc("ops")
		p, k := splitPfx(o.Key)
		bare := p != "" && len(k) == 0 // exactly the prefix: outside the statement
		switch o.Kind {
		case "get":
			want := m.get(o.Key)
			hit := want != nil
			c.Eval(fmt.Sprintf("get|%s|hit=%v", o.Class, hit))
			if bare || (len(o.Key) == 0) {
				c.Inc("edge_ops")
				if o.panicked == "" && o.got != nil {
					c.Violate("C29|get-edge-key-returned-data|"+o.Class, fmt.Sprintf("get of %q returned %x", o.Key, trunc(o.got)), nil)
					good = false
				}
				continue
			}
			if o.panicked != "" {
				c.Violate("C29|get-panicked|"+o.Class, fmt.Sprintf("get %q panicked: %s", o.Key, o.panicked), nil)
				good = false
				continue
			}
			if !bytes.Equal(want, o.got) || (want == nil) != (o.got == nil) {
				c.Violate("C29|get-differs-from-model|"+o.Class, fmt.Sprintf("op %d get %q returned %x, the reference model holds %x", idx, o.Key, trunc(o.got), trunc(want)), map[string]any{"ops": describe(ops[:idx+1], 40)})
				good = false
				continue
			}
			switch {
			case hit && p == subjectPfx:
				c.Inc("get_hit_subject")
			case hit:
				c.Inc("get_hit_substitute")
			case p == "":
				c.Inc("get_unprefixed_empty")
			}
		case "set":
			c.Eval(fmt.Sprintf("set|%s", o.Class))
			if bare {
				c.Inc("edge_ops")
				if o.panicked == "" {
					m.set(o.Key, o.Val) // the store accepted an empty inner key: follow it (subject only)
				}
				continue
			}
			if o.panicked != "" {
				c.Violate("C29|set-panicked|"+o.Class, fmt.Sprintf("set %q panicked: %s", o.Key, o.panicked), nil)
				good = false
				continue
			}
			m.set(o.Key, o.Val)
			if p == subjectPfx {
				c.Inc("set_subject")
			} else {
				c.Inc("set_ignored")
			}
		case "delete":
			_, existed := m.subj[string(k)]
			c.Eval(fmt.Sprintf("delete|%s|hit=%v", o.Class, existed && p == subjectPfx))
			if bare {
				c.Inc("edge_ops")
				continue
			}
			if o.panicked != "" {
				c.Violate("C29|delete-panicked|"+o.Class, fmt.Sprintf("delete %q panicked: %s", o.Key, o.panicked), nil)
				good = false
				continue
			}
			m.del(o.Key)
			switch {
			case p == subjectPfx && existed:
				c.Inc("delete_subject_hit")
			case p != subjectPfx:
				c.Inc("delete_ignored")
			}
		case "iter", "riter":
			ps, ks := splitPfx(o.Start)
			pe, ke := splitPfx(o.End)
			consistent := ps != "" && ps == pe && !o.NilStart && !o.NilEnd
			want := m.iterate(o.Start, o.End, o.Kind == "riter")
			if o.NilStart || o.NilEnd {
				want = nil
			}
			inverted := consistent && bytes.Compare(ks, ke) >= 0
			c.Eval(fmt.Sprintf("%s|%s|consistent=%v|n=%d", o.Kind, o.Class, consistent, min(len(want), 3)))
			if inverted {
				// empty or inverted range inside one store: nothing can be in it; a refusal by the store layer is tolerated
				c.Inc("edge_ops")
				if len(o.gotPairs) != 0 {
					c.Violate("C29|inverted-range-not-empty", fmt.Sprintf("%s %q..%q returned %d pairs", o.Kind, o.Start, o.End, len(o.gotPairs)), nil)
					good = false
				}
				continue
			}
			if o.panicked != "" {
				c.Violate("C29|iterator-panicked|"+o.Class, fmt.Sprintf("%s %q..%q panicked: %s", o.Kind, o.Start, o.End, o.panicked), nil)
				good = false
				continue
			}
			if !consistent {
				if len(o.gotPairs) != 0 {
					// classify: entries of the subject store whose key starts with byte 0x00 (the range of the "closed" placeholder iterator)
					leak := true
					for _, pr := range o.gotPairs {
						v, ok := m.subj[string(pr.K)]
						if !ok || !bytes.Equal(v, pr.V) || len(pr.K) == 0 || pr.K[0] != 0x00 {
							leak = false
						}
					}
					if leak && c.Observed["placeholder_iterator_leaks"] >= 3 {
						// same class as already recorded: count only, keep room for other signatures
						c.Inc("placeholder_iterator_leaks")
						continue
					}
					if leak {
						c.Violate("C29|inconsistent-range-not-empty|placeholder-iterator-yields-subject-keys-in-00-01", fmt.Sprintf("op %d %s %q..%q (bounds without one consistent prefix) returned %d pair(s) of the subject store, first key %q", idx, o.Kind, o.Start, o.End, len(o.gotPairs), o.gotPairs[0].K), map[string]any{"ops": describe(ops[:idx+1], 60)})
						c.Inc("placeholder_iterator_leaks")
						continue
					}
					c.Violate("C29|inconsistent-range-not-empty|"+o.Class, fmt.Sprintf("op %d %s %q..%q (bounds without one consistent prefix) returned %d pairs, first key %q", idx, o.Kind, o.Start, o.End, len(o.gotPairs), o.gotPairs[0].K), nil)
					good = false
					continue
				}
				c.Inc("iter_inconsistent_empty")
				continue
			}
			if !samePairs(want, o.gotPairs, ps) {
				c.Violate("C29|iteration-differs-from-model|"+o.Class, fmt.Sprintf("op %d %s %q..%q returned %s, the reference model gives %s", idx, o.Kind, o.Start, o.End, showPairs(o.gotPairs), showPairs(want)), map[string]any{"ops": describe(ops[:idx+1], 40)})
				good = false
				continue
			}
			if len(want) > 0 {
				c.Inc("iter_nonempty")
			} else {
				c.Inc("iter_consistent_empty")
			}
		}
	}
	return good
}

// samePairs compares an iteration result with the model; a returned key may or may not carry the routing prefix.
func samePairs(want, got []kvPair, prefix string) bool {
	if len(want) != len(got) {
		return false
	}
	for i := range want {
		if !bytes.Equal(want[i].V, got[i].V) {
			return false
		}
		if !bytes.Equal(want[i].K, got[i].K) && !bytes.Equal(append([]byte(prefix), want[i].K...), got[i].K) {
			return false
		}
	}
	return true
}

func showPairs(ps []kvPair) string {
	var sb strings.Builder
	sb.WriteString("[")
	for i, p := range ps {
		if i > 5 {
			sb.WriteString(" …")
			break
		}
		fmt.Fprintf(&sb, " %q=%x", p.K, trunc(p.V))
	}
	sb.WriteString(" ]")
	return sb.String()
}
