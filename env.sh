# sourced by every script: offline Go environment for the harness
TC=/root/go/pkg/mod/golang.org/toolchain@v0.0.1-go1.26.5.linux-amd64/bin
if [ -x "$TC/go" ]; then export PATH="$TC:$PATH"; else
  # fallback: pre-installed go1.26.8
  VR=${VROOT:-/verif}; mkdir -p $VR/bin/gowrap; ln -sf "$(command -v go1.26.8)" $VR/bin/gowrap/go; export PATH="$VR/bin/gowrap:$PATH"
fi
export GOTOOLCHAIN=local GOFLAGS=-mod=mod GOPROXY=off GOSUMDB=off GONOSUMCHECK=1 GONOSUMDB='*'
